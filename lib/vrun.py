"""Run harness workers, attribute process fates to cases, parse sanitizer reports."""
import json
import os
import re
import shutil
import subprocess
import threading
import time

from vbuild import BUILD, REPO, VERIF, build_harness

NCPU = os.cpu_count() or 4


def sanitizer_env(flavor, leaks):
    env = dict(os.environ)
    env["ASAN_OPTIONS"] = ":".join([
        "abort_on_error=0", "exitcode=86", "handle_abort=1", "handle_segv=1",
        "detect_leaks=%d" % (1 if leaks else 0), "allocator_may_return_null=1",
        "detect_stack_use_after_return=1", "print_summary=1", "max_malloc_fill_size=4096",
        "malloc_fill_byte=190", "free_fill_byte=221", "max_free_fill_size=4096",
        "quarantine_size_mb=64", "detect_odr_violation=0",
    ])
    env["UBSAN_OPTIONS"] = "print_stacktrace=1:halt_on_error=1:exitcode=87"
    env["LSAN_OPTIONS"] = "print_suppressions=0:max_leaks=50"
    env["MALLOC_PERTURB_"] = "165"  # non-ASan flavours: make stale reads visible as garbage
    return env


FRAME_RE = re.compile(r"^\s*#(\d+)\s+0x[0-9a-f]+\s+(?:in\s+)?(\S+)\s*(\S*)")


def parse_frames(text):
    """[(func, file)] for the first stack in text."""
    frames = []
    started = False
    for line in text.splitlines():
        m = FRAME_RE.match(line)
        if m:
            started = True
            frames.append((m.group(2), m.group(3)))
        elif started:
            break
    return frames


SKIP_FILES = ("ckd_alloc.c", "listelem_alloc.c", "glist.c", "err.c")


def lib_frame(frames, skip_alloc=False):
    """Innermost frame whose source is inside the repository (function name only)."""
    for fn, fl in frames:
        if (REPO + "/src/") in fl or (REPO + "/include/") in fl:
            if "/harness/" in fl:
                continue
            if skip_alloc and any(fl.split(":")[0].endswith(s) for s in SKIP_FILES):
                continue
            return fn
    for fn, fl in frames:
        if "/harness/" in fl:
            return "harness:" + fn
    return frames[0][0] if frames else "?"


def ubsan_class(msg):
    m = msg.lower()
    table = [
        ("signed integer overflow", "signed-integer-overflow"),
        ("out of bounds", "index-out-of-bounds"),
        ("misaligned", "misaligned-address"),
        ("null pointer", "null-pointer"),
        ("division by zero", "division-by-zero"),
        ("shift exponent", "shift-exponent"),
        ("left shift of", "shift-base"),
        ("outside the range of representable", "float-cast-overflow"),
        ("not a valid value for type", "invalid-value"),
        ("negation of", "negation-overflow"),
        ("applying", "pointer-overflow"),
        ("pointer index expression", "pointer-overflow"),
        ("unreachable", "unreachable"),
        ("variable length array", "vla-bound"),
        ("insufficient space", "object-size"),
        ("nonnull", "nonnull"),
    ]
    for pat, cls in table:
        if pat in m:
            return cls
    return re.sub(r"[^a-z]+", "-", m)[:40].strip("-")


def classify_death(seg, rc, fate):
    """(kind, func, excerpt) for a worker that died inside a case.  seg = stderr of that case."""
    am = re.search(r"(\w+): Assertion `(.*)' failed", seg)
    if am:
        return "assert", am.group(1), seg[max(0, am.start() - 300):][:2500]
    m = re.search(r"ERROR: AddressSanitizer: (.*)", seg)
    if m:
        what = m.group(1)
        if what.startswith("attempting double-free"):
            kind = "double-free"
        elif what.startswith("attempting free"):
            kind = "bad-free"
        elif what.startswith("requested allocation size") or "allocation-size-too-big" in what:
            kind = "allocation-size-too-big"
        else:
            kind = re.split(r"[ :]", what.strip())[0]
        tail = seg[m.start():]
        fr = parse_frames(tail)
        return "asan:" + kind, lib_frame(fr), tail[:3000]
    m = re.search(r"runtime error: (.*)", seg)
    if m:
        tail = seg[m.start():]
        fr = parse_frames(tail)
        func = lib_frame(fr)
        if func == "?":
            # fall back to the source location printed by UBSan
            lm = re.search(r"([\w./+-]+\.[ch]):(\d+):\d+: runtime error", seg)
            if lm:
                func = os.path.basename(lm.group(1))
        return "ubsan:" + ubsan_class(m.group(1)), func, seg[max(0, m.start() - 200):][:3000]
    m = re.search(r"@@VH EXIT case", seg)
    if m or fate == "exit":
        tail = seg[m.start():] if m else seg
        fr = parse_frames(tail)
        # innermost library frame that is not the allocator wrapper / the handler
        fr = [f for f in fr if "on_exit_handler" not in f[0] and "__run_exit" not in f[0]]
        func = lib_frame(fr, skip_alloc=True)
        if func == "?" or func.startswith("harness:") or func.startswith("__"):
            fm = re.findall(r'FATAL: "([\w.]+)", line (\d+)', seg)
            mm = re.findall(r'(?:calloc|malloc|realloc)\(.*\) failed from (\S+?)\(\d+\)', seg)
            if fm:
                func = "fatal@" + fm[-1][0]
            elif mm:
                func = "alloc_failed@" + os.path.basename(mm[-1])
        return "exit", func, seg[-3000:]
    m = re.search(r"Assertion `(.*)' failed", seg)
    if m:
        fm = re.search(r"(\w+): Assertion", seg)
        return "assert", fm.group(1) if fm else "?", seg[-2000:]
    if rc is not None and rc < 0:
        return "signal:%d" % (-rc), "?", seg[-2000:]
    return "died:rc=%s" % rc, "?", seg[-2000:]


def parse_leaks(seg):
    """[(func, bytes, excerpt)] one per leak record in an LSan report."""
    out = []
    for m in re.finditer(r"(Direct|Indirect) leak of (\d+) byte\(s\) in (\d+) object\(s\) allocated from:\n((?:\s+#\d+.*\n)+)",
                         seg):
        if m.group(1) != "Direct":
            continue
        fr = parse_frames(m.group(4))
        out.append((lib_frame(fr, skip_alloc=True), int(m.group(2)), m.group(0)[:1500]))
    return out


class StageResult:
    def __init__(self):
        self.evaluations = 0
        self.nontrivial = 0
        self.sigs = set()
        self.violations = []   # dict(key, case, msg, stage, excerpt)
        self.inconclusive = []  # dict(case, why)
        self.counters = {}
        self.samples = []
        self.descs = {}
        self.harness_errors = []
        self.ncases = 0
        self.restarts = 0
        self.hangs = 0

    def add_counter(self, name, n, ismax):
        if ismax:
            self.counters[name] = max(self.counters.get(name, 0), n)
        else:
            self.counters[name] = self.counters.get(name, 0) + n


MEMCHECK_KINDS = [
    (r"Conditional jump or move depends on uninitialised value", "uninitialised-condition"),
    (r"Use of uninitialised value", "uninitialised-use"),
    (r"Syscall param .* (uninitialised|unaddressable)", "uninitialised-syscall-param"),
    (r"Invalid read of size", "invalid-read"),
    (r"Invalid write of size", "invalid-write"),
    (r"Invalid free|Mismatched free", "invalid-free"),
    (r"Source and destination overlap", "overlap"),
    (r"Argument .* of function .* has a fishy", "fishy-size"),
]


def parse_memcheck(path):
    """[(key, case, msg, excerpt)] one per distinct (kind, function) per case from a valgrind memcheck stderr."""
    try:
        txt = open(path, errors="replace").read()
    except OSError:
        return []
    out, seen = [], set()
    case = None
    block = None
    lines = txt.splitlines()
    lines.append("")

    def flush(b):
        if not b:
            return
        head = b[0]
        kind = None
        for rx, k in MEMCHECK_KINDS:
            if re.search(rx, head):
                kind = k
                break
        if not kind:
            return
        func = "?"
        for ln in b[1:]:
            m = re.search(r"(?:at|by) 0x[0-9A-Fa-f]+: (\S+) \(([^):]+):(\d+)\)", ln)
            if m and os.path.exists(os.path.join(REPO, "src", m.group(2))):
                func = m.group(1)
                break
            if "Uninitialised value was created" in ln or "Address 0x" in ln:
                break
        key = "memcheck:%s|%s" % (kind, func)
        if (case, key) in seen:
            return
        seen.add((case, key))
        out.append(dict(key=key, case=case, msg="valgrind memcheck: %s" % re.sub(r"^==\d+== ", "", head),
                        excerpt="\n".join(b)[:3000]))

    for ln in lines:
        m = re.match(r"@@VH BEGIN (\d+)", ln)
        if m:
            flush(block)
            block = None
            case = int(m.group(1))
            continue
        if re.match(r"==\d+== \S", ln) and not re.match(r"==\d+==\s+(at|by) 0x", ln) and not re.match(r"==\d+==  ", ln):
            # a new error block starts with a non-indented line
            flush(block)
            block = [ln]
        elif re.match(r"==\d+==", ln) and block is not None:
            if re.match(r"==\d+==\s*$", ln):
                flush(block)
                block = None
            else:
                block.append(ln)
        else:
            flush(block)
            block = None
    return [v for v in out if v["case"] is not None]


def _stderr_segment(path, case):
    try:
        txt = open(path, errors="replace").read()
    except OSError:
        return ""
    marker = "@@VH BEGIN %d\n" % case
    k = txt.rfind(marker)
    if k < 0:
        return txt[-6000:]
    seg = txt[k + len(marker):]
    k2 = seg.find("@@VH BEGIN ")
    if k2 >= 0:
        seg = seg[:k2]
    return seg


def run_stage(prop, stage, tier, seed, rundir, only=None, verbose=False, dump=None, history=None):
    """stage: dict(harness, flavor, quick, thorough, leaks, workers, args, hang_violation, timeout)"""
    res = StageResult()
    exe = build_harness(stage["harness"], stage["flavor"], quiet=not verbose)
    ncases = stage.get(tier, stage.get("quick"))
    nshards = 1 if only is not None else min(stage.get("workers", NCPU), NCPU, max(1, ncases if ncases and ncases > 0 else NCPU))
    env = sanitizer_env(stage["flavor"], stage.get("leaks", False))
    sname = "%s-%s" % (stage["harness"], stage["flavor"])
    lock = threading.Lock()
    tmpdir = os.path.join(rundir, "tmp")
    os.makedirs(tmpdir, exist_ok=True)
    overall_deadline = time.time() + stage.get("timeout", 3600 if tier == "quick" else 6 * 3600)

    def one_worker(shard):
        first = 0
        attempt = 0
        hang_retry = {}
        while True:
            attempt += 1
            out = os.path.join(rundir, "%s.w%d.a%d.jsonl" % (sname, shard, attempt))
            err = os.path.join(rundir, "%s.w%d.a%d.err" % (sname, shard, attempt))
            cmd = [exe, "--seed", str(seed), "--tier", tier, "--out", out, "--repo", REPO,
                   "--tmp", tmpdir]
            if ncases is not None and ncases >= 0:
                cmd += ["--ncases", str(ncases)]
            if only is not None and history:
                # replay with the same per-worker history: run the shard's cases up to 'only', report only that one
                cmd += ["--shard", str(history["shard"]), "--nshards", str(history["nshards"]),
                        "--first", str(history["first"]), "--last", str(only)]
            elif only is not None:
                cmd += ["--only", str(only)]
            else:
                cmd += ["--shard", str(shard), "--nshards", str(nshards), "--first", str(first)]
            if dump:
                cmd += ["--dump", dump]
            cmd += stage.get("args", [])
            if stage.get("valgrind"):
                # memcheck slice: errors are reported on stderr and attributed to cases afterwards (the process goes on)
                cmd = ["valgrind", "--quiet", "--error-exitcode=0", "--track-origins=yes", "--num-callers=24",
                       "--errors-for-leak-kinds=none", "--leak-check=no", "--error-limit=no"] + cmd
                env["VH_WATCHDOG_SCALE"] = "60"
            with open(err, "wb") as ef:
                p = subprocess.Popen(cmd, stdout=subprocess.DEVNULL, stderr=ef, env=env, cwd=VERIF)
                try:
                    rc = p.wait(timeout=max(5, overall_deadline - time.time()))
                except subprocess.TimeoutExpired:
                    p.kill()
                    p.wait()
                    rc = "timeout"
            # read events
            open_case = None
            fate = None
            done = False
            last_end = None
            try:
                lines = open(out, errors="replace").read().splitlines()
            except OSError:
                lines = []
            with lock:
                for ln in lines:
                    try:
                        ev = json.loads(ln)
                    except ValueError:
                        continue
                    t = ev.get("t")
                    if t == "start":
                        res.ncases = ev.get("ncases", 0)
                    elif t == "begin":
                        open_case = ev["case"]
                    elif t == "end":
                        open_case = None
                        last_end = ev["case"]
                        res.evaluations += 1
                        if ev.get("nt"):
                            res.nontrivial += 1
                            res.sigs.add(ev.get("sig", ""))
                    elif t == "desc":
                        res.descs[ev["case"]] = ev.get("d", "")
                        if len(res.descs) > 4000:
                            # keep memory bounded: drop oldest non-violating descriptions
                            vc = set(v["case"] for v in res.violations)
                            for k in list(res.descs)[:2000]:
                                if k not in vc:
                                    del res.descs[k]
                    elif t == "viol":
                        res.violations.append(dict(key=ev.get("key", "?"), case=ev.get("case"),
                                                   msg=ev.get("msg", ""), stage=sname, errfile=err,
                                                   history=dict(shard=shard, nshards=nshards, first=first)))
                    elif t == "inconc":
                        res.inconclusive.append(dict(case=ev.get("case"), why=ev.get("why", "")))
                    elif t == "sample":
                        if len(res.samples) < 12:
                            res.samples.append(ev.get("s", ""))
                    elif t == "count":
                        res.add_counter(ev["name"], ev["n"], ev.get("max", 0))
                    elif t in ("exit", "hang", "died"):
                        fate = ev
                    elif t == "done":
                        done = True
            if rc == "timeout":
                with lock:
                    res.harness_errors.append("%s shard %d: overall stage timeout (case %s open)" % (
                        sname, shard, open_case))
                return
            if stage.get("valgrind"):
                with lock:
                    for v in parse_memcheck(err):
                        res.violations.append(dict(v, stage=sname, errfile=err,
                                                   history=dict(shard=shard, nshards=nshards, first=first)))
            if done and rc == 0:
                return
            if open_case is None:
                # died outside a case (setup / teardown): harness failure, not a verdict
                seg = ""
                try:
                    seg = open(err, errors="replace").read()[-3000:]
                except OSError:
                    pass
                with lock:
                    res.harness_errors.append("%s shard %d died outside a case rc=%s: %s" % (
                        sname, shard, rc, seg))
                return
            case = open_case
            seg = _stderr_segment(err, case)
            fkind = fate.get("t") if fate else None
            if fkind == "hang" or rc == 98:
                # watchdog: re-run that case once alone before believing it
                if hang_retry.get(case, 0) < 1 and only is None:
                    hang_retry[case] = 1
                    r2 = run_stage(prop, dict(stage, workers=1), tier, seed,
                                   os.path.join(rundir, "hang%d" % case), only=case)
                    with lock:
                        res.evaluations += r2.evaluations
                        res.nontrivial += r2.nontrivial
                        res.sigs |= r2.sigs
                        res.violations += r2.violations
                        res.inconclusive += r2.inconclusive
                        res.hangs += r2.hangs
                        res.harness_errors += r2.harness_errors
                else:
                    with lock:
                        res.hangs += 1
                        cls = (fate or {}).get("cls", "")
                        ctx = (fate or {}).get("ctx", "")
                        if stage.get("hang_violation"):
                            key = "hang|%s" % (ctx or "?")
                            if cls:
                                key += "|" + cls
                            res.violations.append(dict(key=key, case=case, stage=sname, errfile=err,
                                                       msg="case did not finish within the watchdog, twice"))
                        else:
                            res.inconclusive.append(dict(case=case, why="watchdog fired twice"))
            else:
                kind, func, excerpt = classify_death(seg, rc if isinstance(rc, int) else None, fkind)
                cls = (fate or {}).get("cls", "")
                key = "%s|%s" % (kind, func)
                if cls:
                    key += "|" + cls
                with lock:
                    res.violations.append(dict(key=key, case=case, stage=sname, errfile=err,
                                               msg="process died inside the case (rc=%s, ctx=%s)" % (
                                                   rc, (fate or {}).get("ctx", "")),
                                               excerpt=excerpt,
                                               history=dict(shard=shard, nshards=nshards, first=first)))
            if only is not None:
                return
            with lock:
                res.restarts += 1
            first = (case - shard) // nshards + 1

    if only is not None:
        one_worker(0)
    else:
        ths = [threading.Thread(target=one_worker, args=(k,)) for k in range(nshards)]
        for t in ths:
            t.start()
        for t in ths:
            t.join()
    # leak reports: viol events with key LSAN are expanded from the stderr segment
    expanded = []
    for v in res.violations:
        if v["key"] == "LSAN":
            seg = _stderr_segment(v["errfile"], v["case"])
            leaks = parse_leaks(seg)
            if not leaks:
                expanded.append(dict(v, key="leak|?", excerpt=seg[-2000:]))
            seen = set()
            for func, nbytes, ex in leaks:
                if func in seen:
                    continue
                seen.add(func)
                expanded.append(dict(v, key="leak|%s" % func, msg="%d bytes leaked, allocated in %s" % (nbytes, func),
                                     excerpt=ex))
        else:
            expanded.append(v)
    res.violations = expanded
    shutil.rmtree(tmpdir, ignore_errors=True)
    return res
