#!/usr/bin/env python3
"""Regenerate /verif/MANIFEST.json from lib/props.py (run after editing props.py)."""
import json
import os
import subprocess
import sys

HERE = os.path.dirname(os.path.abspath(__file__))
VERIF = os.path.dirname(HERE)
sys.path.insert(0, HERE)
from props import PROPS, NOT_APPLICABLE, HOOK_COMMITS  # noqa: E402

ids = [json.loads(l)["id"] for l in open(os.path.join(VERIF, "properties.jsonl"))]
checks = []
for pid in ids:
    if pid not in PROPS:
        continue
    c = PROPS[pid]
    checks.append(dict(
        property_id=pid,
        quick_cmd="bin/vcheck %s --tier quick" % pid,
        thorough_cmd="bin/vcheck %s --tier thorough" % pid,
        evidence_file="evidence/%s.json" % pid,
        replay_cmd_template="bin/vcheck %s --replay {path}" % pid,
        engine="vcheck",
        level_claimed=dict(category=c["level"], text=c["level_text"], design_ref="DESIGN.md section %s" % pid),
        level_note=c["level_note"],
        technique=c["technique"],
    ))
na = [dict(property_id=p, reason=NOT_APPLICABLE.get(p, "check not built yet in this session; nothing is claimed"))
      for p in ids if p not in PROPS]
m = dict(
    version=1,
    setup_cmd="bin/vcheck --setup",
    hooks=dict(
        guard="SOUNDSWALLOWER_VERIF",
        enable="lib/vbuild.py compiles /repo/src/*.c from the current working tree with -DSOUNDSWALLOWER_VERIF "
               "(one object cache per sanitizer flavour under /verif/build); nothing from /repo/_build is used",
        baseline_off_cmd="bin/vcheck --baseline-off",
        source_commits=HOOK_COMMITS,
        add_only=True,
    ),
    engines=[dict(name="vcheck", path="bin/vcheck", serves_properties=[c["property_id"] for c in checks],
                  kind_free_text="runtime monitoring: instrumented builds (ASan+UBSan+LSan / light UBSan) of the working tree, "
                                 "C harnesses with reference-model / differential / trace oracles, fork-free per-case "
                                 "attribution of process fates, known-findings matching, evidence writer")],
    checks=checks,
    not_applicable=na,
    notes="Every check rebuilds the library from /repo's working tree (content-hashed object cache). "
          "Exit 0 held / 1 VIOLATION / 2 inconclusive (harness failure or coverage floor missed). "
          "known_findings.json lists open and fixed genuine defects.",
)
with open(os.path.join(VERIF, "MANIFEST.json"), "w") as f:
    json.dump(m, f, indent=1)
    f.write("\n")
try:
    import jsonschema
    jsonschema.validate(m, json.load(open("/root/.vp/MANIFEST.schema.json")))
    print("MANIFEST.json valid: %d checks, %d not_applicable" % (len(checks), len(na)))
except ImportError:
    print("MANIFEST.json written (jsonschema not importable here)")
