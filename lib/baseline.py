"""hooks.baseline_off_cmd: build /repo the repository's own way (CMake/Ninja, guard OFF) in a
scratch build directory and run its test suite; the 30 tests BASELINE.json calls stable must pass."""
import json
import os
import re
import shutil
import subprocess
import sys
import tempfile

REPO = os.environ.get("VERIF_REPO", "/repo")


def stable_tests():
    try:
        b = json.load(open("/root/.vp/BASELINE.json"))
        return sorted(set(t.split("::")[0] for t in b["stable_pass"]))
    except (OSError, ValueError, KeyError):
        return ["lcase1", "lcase2", "lcase3", "strcmp1", "strcmp2", "strcmp3", "test_acmod",
                "test_acmod_grow", "test_add_words", "test_bitvec", "test_byteorder", "test_ckd_alloc",
                "test_dict2pid", "test_dict", "test_endpointer", "test_err", "test_feat_fe",
                "test_feat_live", "test_fsg", "test_hash_iter", "test_jsgf", "test_listelem_alloc",
                "test_log_shifted", "test_ptm_mgau", "test_s3file", "test_subvq", "test_word_align",
                "ucase1", "ucase2", "ucase3"]


def run():
    bdir = tempfile.mkdtemp(prefix="ssw-baseline-", dir=os.environ.get("TMPDIR", "/var/tmp"))
    try:
        gen = ["-G", "Ninja"] if shutil.which("ninja") else []
        p = subprocess.run(["cmake"] + gen + ["-S", REPO, "-B", bdir, "-DCMAKE_BUILD_TYPE=Debug"],
                           stdout=subprocess.PIPE, stderr=subprocess.STDOUT, text=True)
        if p.returncode != 0:
            print(p.stdout[-4000:])
            print("baseline-off: cmake configure failed")
            return 2
        # 'check' builds every test executable and then runs ctest; ctest's own status is
        # non-zero because of tests that fail on the pinned tree already, so it is ignored here.
        p = subprocess.run(["cmake", "--build", bdir, "--target", "check", "--", "-k", "0"] if gen else
                           ["cmake", "--build", bdir, "--target", "check", "--", "-k"],
                           stdout=subprocess.PIPE, stderr=subprocess.STDOUT, text=True)
        out = p.stdout
        passed = set(re.findall(r"Test\s+#\d+:\s+(\S+)\s+\.+\s*Passed", out))
        failed = set(re.findall(r"Test\s+#\d+:\s+(\S+)\s+\.+\s*\*+(?:Failed|Exception|Timeout|Not Run)", out))
        want = stable_tests()
        missing = [t for t in want if t not in passed]
        print("baseline-off: %d passed, %d failed; stable baseline %d/%d passing" % (
            len(passed), len(failed), len(want) - len(missing), len(want)))
        if missing:
            print("baseline-off: NOT passing: %s" % " ".join(missing))
            print(out[-6000:])
            return 1
        return 0
    finally:
        shutil.rmtree(bdir, ignore_errors=True)


if __name__ == "__main__":
    sys.exit(run())
