"""Per-property check configuration: which harness stages decide it, budgets, floors."""

A_SAN = "gcc 12 AddressSanitizer/UBSan runtime reports are trusted (red-zone tool: intra-object and far overflows are invisible)"
A_GEN = "cases are generated from VERIF_SEED; nothing is claimed about inputs that were not generated"

PROPS = {}
NOT_APPLICABLE = {}
HOOK_COMMITS = ["2f15b1b", "606c23c", "653ad06", "c63cdaa"]

PROPS["C19"] = dict(
    title="Log-domain addition is accurate, commutative and monotone",
    level="exploration",
    rule="one case = one (base, shift) table configuration: the 8x5 grid of DESIGN.md plus random bases "
         "(a third of them aimed at the 1/2/4-byte table-width boundaries); inside a case EVERY table index d in "
         "[0, table_size+1000] is compared with a long double reference at 6-7 operand positions, plus a "
         "log/exp round-trip sweep. A case is non-trivial when the table was built and fully enumerated; "
         "distinct = distinct (base, shift).",
    technique="runtime oracle: long-double reference for every table index, under UBSan/ASan",
    level_text="exploration: the finite table-index domain is enumerated completely for each explored (base, shift); "
               "the real-valued base is sampled (grid + random + width-boundary targeted). Held = no disagreement with "
               "the long double reference on any enumerated index.",
    level_note="trusts libm long double; says nothing about bases/shifts not sampled or about logmath_add_exact (no table)",
    exhaustive=False,
    exhaustive_note="the table-index domain d is enumerated completely for each configuration explored; "
                    "the set of configurations (real-valued base) is sampled",
    stages=[
        dict(harness="h_logmath", flavor="fast", quick=80, thorough=8000),
        dict(harness="h_logmath", flavor="asan", quick=40, thorough=1500, name="h_logmath_asan"),
    ],
    floor=dict(min_evaluations=40, counters={"tables_width1": 1, "tables_width2": 1, "tables_width4": 1,
                                            "roundtrip_checks": 1000}),
    assumptions=[A_SAN, A_GEN, "libm long double log1pl/expl as the reference"],
)

PROPS["C20"] = dict(
    title="The hash table behaves as a map under any operation history",
    level="exploration",
    technique="runtime reference-model monitor (association list) over generated and exhaustively enumerated operation histories, under ASan/UBSan/LSan",
    level_text="exploration with an exhaustive sub-domain: every history of length <= 5 (quick) / 6 (thorough) over three keys "
               "sharing one bucket (enter/replace/delete/lookup x 3 keys + empty), in all four key families, is enumerated; "
               "long random histories over colliding / prefix / case-variant / empty / binary key pools come on top. "
               "After every operation the return value and entry count, and periodically every lookup, the iterator and the "
               "list export, are compared with the model.",
    level_note="equality is decided by the harness on key bytes (never by hashing); binary keys differing only in ASCII case are "
               "not used in no-case tables (the table hashes raw bytes but compares case-folded there: no single meaning of 'equal')",
    rule="case < 676: exhaustive enumeration of all histories with a given 2-op prefix and family; other cases: one random history "
         "(12k ops quick / 40k thorough) over a generated key pool. Non-trivial = at least one full check ran; distinct = distinct "
         "prefix/family or distinct hash of the op sequence.",
    exhaustive=False,
    exhaustive_note="short-history sub-domain (<= 5 or 6 ops over 3 colliding keys, 4 families) is enumerated completely; long histories are sampled",
    stages=[
        dict(harness="h_hash", flavor="asan", quick=676 + 160, thorough=676 + 3000, leaks=True),
        dict(harness="h_hash", flavor="fast", quick=676 + 320, thorough=676 + 6000, name="h_hash_fast"),
    ],
    floor=dict(min_evaluations=676, counters={"delete_head_with_chain": 1, "delete_head_alone": 1, "delete_chain_front_or_middle": 1,
                                             "delete_chain_tail": 1, "op_empty": 1, "op_replace_existing": 1,
                                             "histories_string_nocase": 1, "histories_binary_case": 1, "exhaustive_histories": 1000}),
    assumptions=[A_SAN, A_GEN, "values are distinct non-NULL tokens so a NULL return is unambiguous"],
)

PROPS["C15"] = dict(
    title="Endpointed speech segments are exact excerpts with consistent timestamps",
    level="exploration",
    technique="online trace checker over observable endpointer history (scripted VAD decisions via hook, and shadow-VAD on real audio), under ASan/UBSan",
    level_text="exploration with an exhaustive sub-domain: for a grid of 40 (window, ratio) settings every speech/non-speech decision "
               "string of length <= 13 (quick) / 17 (thorough) is fed through the real endpointer (decisions scripted through the "
               "guarded VAD hook), each followed by end_stream; random long decision strings over random accepted "
               "(window, ratio, frame length, sample rate) and real-audio streams with a shadow VAD (hook inactive) come on top.",
    level_note="the oracle derives start/end decisions from the observable history only; where the implementation's integer rounding of "
               "the end threshold and the real-valued reading of the statement disagree either is accepted; WebRTC VAD determinism is "
               "assumed in shadow-VAD mode",
    rule="case < 40: exhaustive enumeration for one (window, ratio) grid point; other cases: one stream (scripted Markov decision string "
         "of 1..5000 frames, or 4-25 s of spliced speech/noise/silence). Non-trivial = at least one segment was produced (or the "
         "exhaustive grid point ran); distinct = distinct case index with its observed segment/frame counts.",
    exhaustive=False,
    exhaustive_note="decision strings up to the length bound are enumerated completely for the 40-point grid; everything else is sampled",
    stages=[
        dict(harness="h_endpoint", flavor="asan", quick=40 + 260, thorough=40 + 4000, leaks=True),
    ],
    floor=dict(min_evaluations=40, counters={"starts": 100, "ends": 100, "end_stream_drained": 10, "end_stream_cut_at_nonspeech": 10,
                                            "start_before_window_full": 10, "audio_streams": 5, "exhaustive_strings": 10000}),
    assumptions=[A_SAN, A_GEN, "hook ssv_vad_script only replaces the classifier's return value"],
)

PROPS["C06"] = dict(
    title="Acoustic features do not depend on how the audio is chunked or encoded",
    level="exploration",
    technique="differential runtime monitor: bit-exact comparison of chunked/limited/float runs against a one-call reference, under ASan/UBSan",
    level_text="exploration: for random front-end configurations and signals, 6-8 variant runs per case (random partitions from single "
               "samples to > 33000-sample chunks, per-call output limits 1..8 or ample, int16 or float32 entry point, all through the "
               "documented `while (nsamps) fe_process(...)`/fe_end loop) are compared bit-for-bit with a single-call reference; the "
               "frame count is compared with the closed form in the total number of samples and consumption is accounted per call.",
    level_note="dither is excluded (process-global RNG: two runs differ by design); float32 input is exactly int16/32768; "
               "nothing is claimed about configurations fe_init rejects",
    rule="one case = one (front-end configuration, signal) pair with its variant runs; non-trivial = the reference produced >= 1 frame; "
         "distinct = hash of (signal length, variant descriptions).",
    stages=[
        dict(harness="h_fe", flavor="asan", quick=220, thorough=2500, leaks=True),
        dict(harness="h_fe", flavor="fast", quick=500, thorough=12000, name="h_fe_fast"),
    ],
    floor=dict(min_evaluations=100, counters={"variant_runs": 500, "variants_float32": 50, "variants_tiny_chunks": 50,
                                             "variants_huge_chunks": 20, "calls_output_limited": 100, "variants_other_byte_order": 50}),
    assumptions=[A_SAN, A_GEN],
)

PROPS["C13"] = dict(
    title="Grammar transformations and FSG files preserve the grammar",
    level="exploration",
    technique="runtime oracle: tropical-semiring string table (naive Bellman-Ford) over generator-side arcs vs arcs observed through fsg_model_arcs after each transformation, under ASan/UBSan",
    level_text="exploration: for each random finite-state grammar (1-12 connected states, every ninth grammar with 30-3000 further isolated states that no arc mentions and sometimes the start or final state among them, null chains and cycles, duplicate arcs, self-loops, "
               "unreachable states, probabilities 1e-30..1, lw 1..9.5, built through the API or from generated FSG text) the best weight "
               "of all 364 word strings of length <= 5 over a 3-word alphabet is computed from the generator's own arc list and must be "
               "reproduced after construction, after the null closure (also when following at most one null arc between words; second "
               "closure changes nothing), after silence/filler loops (exact k-penalty law, idempotent) and alternates, and the "
               "write/read round trip must keep states, labelled arcs and probabilities to the printed precision.",
    level_note="string length bounded by 5 and alphabet by 3; round-trip probabilities are compared in the linear domain with "
               "0.5e-6 (six printed decimals) + 3e-4 relative (log-base 1.0001 quantisation and float32 parsing)",
    rule="one case = one generated grammar taken through every transformation; non-trivial = the grammar accepts >= 2 of the 364 strings; "
         "distinct = hash of the generated arc multiset.",
    stages=[
        dict(harness="h_fsgxf", flavor="asan", quick=2500, thorough=40000, leaks=True),
        dict(harness="h_fsgxf", flavor="fast", quick=4000, thorough=120000, name="h_fsgxf_fast"),
    ],
    floor=dict(min_evaluations=1000, min_distinct=300, counters={"closures_checked": 1000, "roundtrips_compared": 300, "silence_checked": 1000,
                                                                 "alt_checked": 200, "filler_insertions_checked": 500, "built_from_text": 200, "sparse_grammars": 100, "grammars_with_scattered_state_numbers": 40, "grammars_with_a_hub_state": 15}),
    assumptions=[A_SAN, A_GEN],
)

PROPS["C05"] = dict(
    title="JSGF compilation preserves the language of the grammar",
    level="exploration",
    technique="runtime oracle: generator-side JSGF AST evaluated by least fix point (bounded-length language) and a tail-call analysis, compared with the language enumerated from the compiled FSG's observed arcs",
    level_text="exploration: random JSGF ASTs (<= 6 rules, nesting <= 5, sequences, weighted alternatives, groups, optionals, * and +, "
               "rule references incl. repeated and recursive ones, <NULL>, <VOID>, tags, comments, shuffled rule order) are printed, "
               "compiled through jsgf_parse_string + jsgf_build_fsg(_raw) and jsgf_read_string, and the set of accepted word strings "
               "of length <= 5 (quick) / 6 (thorough) over 3 words is compared with the AST's denotation; grammars the analysis marks "
               "unrepresentable (non-tail recursion, reachable undefined rule, no public rule) must be refused; in non-recursive "
               "grammars every state of the raw FSG must be stochastic (weights normalised).  Then every rule of the grammar, in random "
               "order and the first one again, is compiled from the same parsed object and judged the same way, so that what one "
               "compilation (also a refused one) leaves behind cannot show in the next.",
    level_note="bounded string length and alphabet; weights only on first atoms of alternatives (their JSGF meaning); quoted tokens are not "
               "generated (scanner keeps the quotes: recorded in DESIGN.md as an observation outside this check)",
    rule="one case = one generated grammar; non-trivial = representable and denoting >= 2 strings, or marked must-refuse; distinct = hash of the grammar text.",
    stages=[
        dict(harness="h_jsgf", flavor="asan", quick=1500, thorough=30000),
        dict(harness="h_jsgf", flavor="fast", quick=5000, thorough=150000, name="h_jsgf_fast"),
    ],
    floor=dict(min_evaluations=1000, min_distinct=300, counters={"languages_compared": 500, "class_tail_recursion": 20, "class_plain": 200,
                                                                 "choice_points_checked": 200, "rules_compiled_in_sequence": 2000, "rules_refused_in_sequence": 100}),
    assumptions=[A_SAN, A_GEN],
)


def _decode_prop(pid, title, monitor, level_text, level_note, rule, floor, quick=(260, 500), thorough=(6000, 14000), extra_assume=()):
    return dict(
        title=title, level="exploration",
        technique="runtime trace/graph monitor over generated decode scenarios with generator-side grammar truth, under ASan/UBSan (pool red zones on)",
        level_text=level_text, level_note=level_note, rule=rule,
        stages=[
            dict(harness="h_decode", flavor="asan", quick=quick[0], thorough=thorough[0], args=["--x-monitor", monitor], name="h_decode_asan"),
            dict(harness="h_decode", flavor="fast", quick=quick[1], thorough=thorough[1], args=["--x-monitor", monitor], name="h_decode_fast"),
        ],
        floor=floor,
        assumptions=[A_SAN, A_GEN, "grammar truth is the generator's own automaton (never fsg_model.c / jsgf.c)"] + list(extra_assume),
    )


_SCEN = ("one case = one decode scenario: model (en-us 16k/8k, fr-fr) x search parameters (default / narrow / fully open beams, lw, wip, pip, "
         "silprob, fillprob, fillers and alternates on/off) x generated grammar (FSG text, right-linear JSGF, slot JSGF, alignment text; "
         "with or without the transcript) x audio (bundled recordings whole / excerpt / reversed / padded / noisy / clipped, few-frame "
         "snippets, adversarial synthetic signals) x calling pattern (full_utt, streaming in 2048 / random / tiny / huge chunks, first chunk "
         "< 1 frame, buffered no_search prefixes, int16 or float32); partial results are observed at random points. ")

PROPS["C01"] = _decode_prop(
    "C01", "Recognition results are sentences of the active grammar", "C01",
    "exploration: after every utterance the reported words (segmentation with nulls/fillers dropped and alternates mapped to base forms, "
    "which must equal the hypothesis string) are run through a reference NFA built by the generator: accepted start->final for final "
    "results, prefix-viable from the start state for partial results; 'no hypothesis' is always acceptable.",
    "fillers are recognised by spelling (<..>, [..], +..+) exactly as the bundled filler dictionaries define them",
    _SCEN + "Non-trivial = a hypothesis was returned or partial results were observed; distinct = hash of (grammar text, audio, hypothesis).",
    dict(min_evaluations=200, min_distinct=60, counters={"final_results_checked": 100, "partial_results_checked": 100, "final_no_hypothesis": 5,
                                                        "grammar_fsg-text": 20, "grammar_jsgf-right-linear": 20, "grammar_jsgf-slots": 20, "grammar_align-text": 20,
                                                        "vocabularies_with_prefix_pairs": 20, "fsg_texts_with_nonzero_start_state": 10}))

PROPS["C03"] = _decode_prop(
    "C03", "Word segmentation tiles the utterance and agrees with hypothesis and score", "C03",
    "exploration: for every final and partial result the segment list is checked as a trace: first word at frame 0, each word starts on the frame "
    "after the previous one ends, non-empty, inside the frames searched so far, null segments are zero-length markers at the previous end "
    "frame; hypothesis string == base forms of non-filler segments; sum(ascr+lscr) == reported score exactly; sum of the processing calls' "
    "return values plus the frames searched inside end_utt == closed-form front-end frame count for the samples supplied.",
    "decoder_n_frames() is used only through its difference across decoder_end_utt (it is output_frame+1 by construction)",
    _SCEN + "Audio lengths emphasise 0, <1, 1..8 frames. Non-trivial = a segmentation was produced; distinct as for C01.",
    dict(min_evaluations=200, min_distinct=60, counters={"final_segmentations_checked": 100, "partial_segmentations_checked": 50, "frame_counts_checked": 200,
                                                        "utterances_shorter_than_one_frame": 3, "utterances_of_1_to_8_frames": 3, "null_segments_seen": 5}))

PROPS["C11"] = _decode_prop(
    "C11", "The word lattice is a well-formed, time-consistent graph of grammar paths", "C11",
    "exploration: every lattice (final, and mid-utterance at random points) is read completely through the public node/link iterators and "
    "checked by an independent graph pass: entries/exits mirror each other, one node without entries (= start) and one without exits (= end), "
    "acyclic (Kahn), every node forward-reachable from start and backward-reachable from end, every link joins a word ending at t to one "
    "starting at t+1 inside the utterance and inside the node's end-frame range; the generator's grammar NFA state sets are propagated along "
    "the DAG and 120 random start-to-end walks are checked exactly as grammar paths; the first-best segmentation must be a node path with "
    "matching boundaries; a second decoder_lattice() call must return the same object.",
    "synthetic <s> / </s> nodes (created when there are several start/end candidates) are recognised by word and position and only required "
    "to connect nodes starting at frame 0 / ending at the last frame; a NULL lattice is counted, not judged; the union of state sets can hide "
    "an off-grammar path that merges with a valid one (the random walks are exact)",
    _SCEN + "Audio is capped at ~4 s. Non-trivial and distinct as for C01.",
    dict(min_evaluations=150, min_distinct=40, counters={"final_lattices_checked": 60, "partial_lattices_checked": 20, "first_best_found_in_lattice": 40,
                                                        "lattices_with_synthetic_start": 3, "lattices_with_real_start": 3, "lattice_paths_walked": 1000}),
    quick=(200, 400), thorough=(5000, 12000))

PROPS["C12"] = _decode_prop(
    "C12", "N-best lists and lattice scores are ordered and probabilistically sane", "C12",
    "exploration: on every lattice the monitor runs lattice_bestpath, lattice_posterior and the N-best iterator (up to 60 / 200 entries): the "
    "best-path score must equal an independent max-plus DP over the observed DAG and enter the end node; N-best scores must be non-increasing, "
    "each entry's segmentation a node path of the lattice ending at the end node and its string the non-filler words of that path; link and "
    "best-path posteriors must be <= 0 within the log-add rounding bound; the forward total (links into end), the backward total (links out "
    "of start) and the posterior mass entering and leaving every inner node must agree; lattice_posterior must be repeatable.",
    "rounding bound = half a log unit per logmath_add that fed the quantity (C19), propagated along the DAG by the monitor itself, so it is "
    "neither a magic constant nor tighter than the arithmetic allows; nothing is demanded of the relation between the first N-best score and the "
    "best-path score (the statement does not relate them)",
    _SCEN + "Audio is capped at ~4 s. Non-trivial and distinct as for C01.",
    dict(min_evaluations=150, min_distinct=40, counters={"bestpath_texts_compared_with_path": 50, "scenarios_with_insertion_bonus": 5, "bestpaths_checked": 50, "posterior_lattices_checked": 50, "nbest_entries_checked": 100,
                                                        "nbest_lists_with_several_entries": 10, "node_conservation_checks": 500}),
    quick=(200, 400), thorough=(5000, 12000))

PROPS["C14"] = _decode_prop(
    "C14", "The JSON result is well-formed and says what the iterators say", "C14",
    "exploration: decoder_result_json at level 0/1/2 with start offsets from 0 to 1e6 (and negative), frame rates 50/100/200, for final, "
    "partial and empty results is parsed by a strict RFC 8259 parser written for the monitor (one object, trailing newline, no extensions), "
    "its length+1 is compared with the size AddressSanitizer recorded for the allocation, and every t/b/d/p field and nested w list is compared "
    "with decoder_hyp, the segment iterator and the alignment iterators for the same result; a second stage adds words with hostile "
    "spellings (quotes, backslashes, control and non-ASCII bytes) through decoder_add_word and decodes them.",
    "times compared to 0.0005 (three printed decimals); probabilities to 0.0005; allocation size is only available in the ASan flavour",
    _SCEN + "Non-trivial and distinct as for C01.",
    dict(min_evaluations=200, min_distinct=60, counters={"json_level0_checked": 100, "json_level1_checked": 20, "json_level2_checked": 20,
                                                        "json_buffer_sizes_checked": 50}))


def _diff_prop(title, monitor, level_text, level_note, rule, floor, quick, thorough):
    return dict(
        title=title, level="exploration",
        technique="differential runtime monitor: byte-exact comparison of complete result records between calling patterns / decoder histories / instances, under ASan/UBSan (thorough tier: plus a valgrind memcheck slice for uninitialised reads)",
        level_text=level_text, level_note=level_note, rule=rule,
        stages=[
            dict(harness="h_diff", flavor="asan", quick=quick[0], thorough=thorough[0], args=["--x-monitor", monitor], name="h_diff_asan"),
            dict(harness="h_diff", flavor="fast", quick=quick[1], thorough=thorough[1], args=["--x-monitor", monitor], name="h_diff_fast"),
            # a value that is read before it is written is a source of run-to-run differences ASan cannot see: valgrind memcheck slice (thorough only)
            dict(harness="h_diff", flavor="plain", valgrind=True, quick=0, thorough=32, tiers=["thorough"], args=["--x-monitor", monitor], name="h_diff_memcheck"),
        ],
        floor=floor,
        assumptions=[A_SAN, A_GEN],
    )


PROPS["C07"] = _diff_prop(
    "Decoding results do not depend on chunking or buffering mode", "C07",
    "exploration: for each scenario the reference run (2048-sample int16 chunks) and 6-8 variant calling patterns on the same decoder -- one "
    "streaming call, random chunks down to single samples, first chunk shorter than one analysis window, huge chunks, buffered (no_search) "
    "prefixes or everything buffered, float32 entry point, full_utt (only when cmn is live or none: batch CMN is documented to normalise "
    "differently), with hyp/seg/lattice/alignment/JSON/CMN queries interleaved -- must give the identical record: hypothesis, score, every "
    "segment with its scores, the three-level alignment, frames searched. decoder_set_cmn fixes the normalisation state before every run.",
    "audio stays below the live-CMN update window (the bundled recordings are < 3 s); dither is off",
    "one case = one (model, search parameters, grammar, audio) with its variant runs; non-trivial = the reference produced a segmentation; "
    "distinct = hash of (reference record, grammar).",
    dict(min_evaluations=60, min_distinct=20, counters={"variants_compared": 300, "variant_first_chunk_lt_1_frame": 50, "variant_full_utt": 10,
                                                       "variant_buffered": 50, "variant_interleaved_buffering": 30, "variant_float32": 30, "references_with_alignment": 20, "partial_queries": 100}),
    quick=(80, 160), thorough=(1500, 4000))

PROPS["C08"] = _diff_prop(
    "Utterances and decoder instances are isolated; decoding is deterministic", "C08",
    "exploration: each target utterance (configuration, grammar, audio, calling pattern, CMN state set explicitly -- except in full_utt batch "
    "mode, where no reset is needed) is decoded on a fresh decoder, on a long-lived decoder after 0-3 random earlier utterances (other audio "
    "incl. adversarial and zero-length, other grammars, other patterns, partial queries, unrelated decoder_add_word calls; the decoder is kept "
    "for up to 40 cases so histories get long), and twice in a row; the records (hypothesis, score, segments+scores, alignment, lattice node/link "
    "multiset, exported CMN state, frames searched) must be identical. For 30% of the cases two decoders are alive and their calls interleaved at "
    "random; each must reproduce the record of its own solo run with the same call sequence.",
    "dither is excluded (process-global RNG); the quantifier is over histories, not over configurations",
    "one case = one target with its fresh / after-history / repeated (/ interleaved) runs; non-trivial = the fresh run produced a segmentation.",
    dict(min_evaluations=40, min_distinct=15, counters={"targets_compared": 40, "history_utterances": 30, "interleaved_pairs_compared": 5,
                                                       "targets_with_cmn_reset": 20}),
    quick=(48, 96), thorough=(1000, 3000))

PROPS["C18"] = dict(
    title="Features and scores stay finite and within range for any audio", level="exploration",
    technique="runtime range/finiteness monitor over adversarial signals, with UBSan signed-integer-overflow / float-cast-overflow and ASan on",
    level_text="exploration: adversarial signals (digital silence, +-1 LSB, full-scale squares, impulses, DC, white noise, hard-clipped speech, "
               "alternating extremes, ramps, speech followed by silence; int16, float32 in range and up to +-8) from one sample to minutes are fed "
               "(a) to front ends with random configurations: every cepstral value must be finite; (b) to decoders (compallsen=yes, cmn live / "
               "batch / none, full_utt / streaming / buffered): dynamic features finite, per-frame senone scores non-negative with minimum 0 "
               "(re-scored via acmod_rewind), path and segment scores in [WORST_SCORE, 0] and non-increasing, exported CMN state finite and a fixed "
               "point of export/import, and a normal utterance afterwards still decodes; UBSan traps any signed overflow on the way.",
    level_note="NaN/Inf samples are outside the statement's list and not generated; quick tier goes to 60 s, thorough to 5 minutes",
    rule="one case = one (configuration, signal, length, encoding, calling pattern); non-trivial = frames were produced; distinct = those parameters.",
    stages=[dict(harness="h_c18", flavor="asan", quick=240, thorough=3000), dict(harness="h_c18", flavor="fast", quick=400, thorough=6000, name="h_c18_fast")],
    floor=dict(min_evaluations=200, min_distinct=100, counters={"fe_runs": 30, "front_end_shape_variants": 10, "fe_runs_other_byte_order": 5, "fe_float32_full_mantissa": 5, "feat_runs": 30, "feat_runs_with_varnorm": 8, "feat_runs_on_digital_silence": 5, "fe_float32_out_of_range": 3, "decoder_runs": 100, "frames_rescored": 1000,
                                                              "cmn_roundtrips_checked": 50, "normal_utterances_afterwards": 50}),
    assumptions=[A_SAN, A_GEN],
)

PROPS["C16"] = dict(
    title="Dictionary additions take effect and never disturb existing entries", level="exploration",
    technique="runtime reference-model monitor (word table) over generated histories of decoder_add_word / lookup / use, ground truth for existing words from the harness' own parse of dict.txt, under ASan/UBSan",
    level_text="exploration: each case is a history of 5-400 operations on a fresh decoder (every 40th case 4400 operations, past the 4096-entry "
               "reallocation step): new words (1 to 40 phones, hostile spellings, messy whitespace in the phone string), numbered alternates of "
               "added and of pre-existing words, duplicates, alternates without base, unknown phones, empty word, empty / blank pronunciation, "
               "with update on and off; after each: return value (dense fresh id or < 0), dictionary size, lookup of the word, base id and "
               "alternate chain; periodically every added word and 120 random pre-existing words (+ forward/the/a) are re-verified (id, "
               "spelling, pronunciation vs dict.txt, base, chain); added words are used at once in alignment text / JSGF on the bundled "
               "recording and must be reported under the base spelling.",
    level_note="a spelling of the form x(y) is an alternate of x by the dictionary's own convention; such generated spellings are expected to be "
               "rejected when x is unknown",
    rule="one case = one history; non-trivial = at least one successful addition; distinct = (case, additions, rejections).",
    stages=[dict(harness="h_dict", flavor="asan", quick=96, thorough=1200, leaks=True), dict(harness="h_dict", flavor="fast", quick=160, thorough=3000, name="h_dict_fast")],
    floor=dict(min_evaluations=80, min_distinct=40, counters={"alignment_texts_with_added_words_of_any_pronunciation": 50, "alternates_tried_right_after_a_longer_word_with_the_same_stem": 50, "successful_additions": 500, "alternates_added": 50, "rejections_duplicate": 20, "rejections_empty_word": 10,
                                                             "rejections_empty_pron": 10, "rejections_unknown_phone": 10, "utterances_with_added_words": 20,
                                                             "histories_past_reallocation_step": 1, "one_phone_words_added": 10, "existing_word_checks": 2000}),
    assumptions=[A_SAN, A_GEN],
)

PROPS["C10"] = dict(
    title="Untrusted grammar, dictionary, configuration and text inputs are handled safely", level="exploration",
    technique="structure-aware mutation fuzzing of the real entry points under ASan/UBSan with per-input attribution of the process fate (sanitizer report, signal, assertion, exit, watchdog)",
    level_text="exploration: a deterministic structure-aware mutator (token dictionaries per format, splice / duplicate / delete / bit flips, numeric "
               "edge values, 64 KiB tokens, nesting depth 10000, truncation, non-UTF-8 and control bytes, unstructured bytes) feeds seven targets: "
               "JSGF text, FSG files (exact-size buffers and the fsg: path of decoder_init), pronunciation and filler dictionaries, JSON and "
               "key-value configuration strings, alignment text, word/pronunciation pairs, CMN strings. Every object that comes back is used "
               "(arcs walked, written, compiled, loaded into a live decoder, decoded, serialised and re-parsed) and freed. Any sanitizer "
               "report, signal, assertion, exit() or 30 s watchdog expiry (re-run once alone) inside a case is a violation.",
    level_note="leaks are not judged here (the statement does not list them); string entry points stop at the first NUL by contract; "
               "the committed corpus under /verif/corpus is replayed as additional seeds",
    rule="one case = one generated input for one target (target = case index mod 7); distinct = hash of (target, bytes).",
    stages=[dict(harness="h_fuzz", flavor="asan", quick=21000, thorough=280000, hang_violation=True),
            dict(harness="h_fuzz", flavor="fast", quick=35000, thorough=700000, hang_violation=True, name="h_fuzz_fast"),
            dict(harness="h_fuzz", flavor="plain", valgrind=True, quick=0, thorough=3500, tiers=["thorough"], name="h_fuzz_memcheck")],
    floor=dict(min_evaluations=20000, min_distinct=10000, counters={"library_log_messages_formatted": 1000, "objects_returned_jsgf": 100, "objects_returned_fsg": 100, "objects_returned_dict": 100,
                                                                   "objects_returned_config": 100, "grammars_loaded_into_decoder": 50, "short_decodes": 50,
                                                                   "words_accepted": 20, "texts_accepted": 20, "fsgs_built_from_jsgf": 100, "large_vocabulary_grammars": 200}),
    assumptions=[A_SAN, A_GEN],
)

PROPS["C17"] = dict(
    title="Damaged acoustic-model files are rejected without memory errors", level="fault_enumeration",
    technique="fault enumeration over the bundled model files (one damaged file per load attempt) with the real loaders running under ASan/UBSan; "
              "half of the attempts through exact-size heap buffers (hook H3) so that the first byte read past the file is reported, half through the real mmap path",
    level_text="fault_enumeration: for en-us and fr-fr and each of mdef, means, variances, sendump, transition_matrices, feat_params.json (and the "
               "feature_transform used with -lda, en-us; and a mixture_weights file derived from the fr-fr senone dump, loaded in place of the dump): file missing; empty; truncated at every 5th (quick) / every (thorough) byte of the header "
               "region (text header + 64 bytes) and at the checksum, page boundaries and random payload offsets; every 32-bit word of the first 64 bytes "
               "after the header (where the counts and dimensions live) replaced by 0, 1, 2, 65536, 2^31-1, 2^31, 2^32-1, +1, -1; byte-order magic "
               "swapped / garbage; checksum flipped; text header lines damaged. decoder_init() must return NULL with no sanitizer report, signal, "
               "assertion or exit(); every 16th case (and after every acceptance) the intact model is loaded in the same process and must decode "
               "the bundled recording as usual.",
    level_note="a fault whose damaged file is still a well-formed model of the same shape (flagged 'neutral' by the enumerator: optional "
               "feat_params.json absent, a repeated version line) may load; it must then decode the reference utterance correctly. "
               "Corruption of payload floats that no loader validates is out of the statement's scope and not generated.",
    rule="one case = one (model, file, fault, access mode); the enumeration is fixed (random payload offsets come from a fixed stream), the quick tier runs each fault in one "
         "access mode (VERIF_SEED flips which one and varies the mmap configuration flag), the thorough tier in both; distinct = (model, file, fault index, mode).",
    exhaustive=False,
    exhaustive_note="header-region truncation points and count words are enumerated completely in the thorough tier; payload offsets are sampled",
    stages=[dict(harness="h_model", flavor="asan", quick=-1, thorough=-1)],
    floor=dict(min_evaluations=1000, min_distinct=1000, counters={"cases_heap_backed": 500, "cases_mmap": 500, "intact_reloads_checked": 50,
                                                                "file_mdef": 100, "file_means": 100, "file_variances": 100, "file_sendump": 100,
                                                                "file_transition_matrices": 100, "file_feat_params.json": 20, "file_feature_transform": 50, "file_mixture_weights": 50,
                                                                "refused_truncate_header": 300, "refused_truncate_payload": 100, "refused_field:n_phone": 10, "refused_field:n_mgau": 20,
                                                                "refused_field:n_tmat": 10, "refused_field:rows": 10, "refused_field:sseq_size": 10, "refused_checksum": 5, "refused_magic": 10,
                                                                "refused_missing": 10, "refused_empty": 10, "loaded_control": 13}),
    assumptions=[A_SAN, "only single-file damage is enumerated; combinations of damaged files are not explored"],
)

PROPS["C04"] = dict(
    title="Forced alignment is a consistent words > phones > states hierarchy", level="exploration",
    technique="runtime monitor over decoder_alignment() objects walked through the public iterators: comparison with the first-pass segmentation observed "
              "just before, with the harness' own parse of the dictionary files, with the model's senone-sequence tables under an independent context "
              "rule, arithmetic on times and scores, and independent re-scoring of the reported state path; under ASan/UBSan",
    level_text="exploration: generated scenarios (alignment text 45%, FSG / JSGF grammars otherwise; en-us and fr-fr; triphone and cionly; compallsen on/off; "
               "default, narrow and open beams; all calling patterns incl. full_utt, buffered no_search chunks and streaming) with the alignment requested "
               "at random partial results and after the utterance, twice in a row (must be the same object), through decoder_result_json at phone and "
               "state level, and in a second utterance on the same decoder at exactly the frame count of the previous one. Checked on every alignment: "
               "words == dictionary words of the segmentation (name, start, duration); phones == pronunciation in dict.txt/noisedict.txt (own parse); "
               "states == senones of the model's phone for (base, left, right, position) found by the harness' own triphone search; every level "
               "contiguous from 0 with positive durations; children partition parents; parent score == sum of children; flat and nested iterators "
               "agree. With compallsen (final results): every phone score == -(emissions re-computed by the harness + transitions of the reported "
               "state path, exit included) and all state scores add up under one transition-attribution convention. With open beams + compallsen: "
               "word score == first-pass segment ascr - wip - phones x pip.",
    level_note="the first-pass equality is only demanded where both passes optimise the same function: open beams, compallsen, and not for one-phone "
               "content words with triphones (scored with a fixed SIL right context in the first pass, by design) nor for the last word of a grammar "
               "(not alignment text) result, whose right context in the first pass is the best of the grammar's continuations; state-level attribution "
               "of transitions is a convention: either 'out of the state' or 'into the state' is accepted if it holds for all states of the utterance",
    rule="one case = one scenario; non-trivial = at least one alignment was returned and checked; distinct = (case, number of alignments).",
    stages=[dict(harness="h_align", flavor="asan", quick=260, thorough=5000), dict(harness="h_align", flavor="fast", quick=500, thorough=12000, name="h_align_fast")],
    floor=dict(min_evaluations=200, min_distinct=100, counters={"final_alignments_checked": 150, "partial_alignments_checked": 50, "words_compared_with_segmentation": 500,
                                                              "phones_compared_with_dictionary": 1500, "single_phone_words_checked": 20, "state_paths_rescored": 50,
                                                              "word_scores_equal_to_first_pass": 100, "json_state_level_compared": 30, "json_phone_level_compared": 30,
                                                              "stale_alignment_probes": 5, "cionly_cases": 10}),
    assumptions=[A_SAN, A_GEN, "frame scores of the second pass are recorded through hook H1 while decoder_alignment() runs; the first-pass comparison is made only when both passes saw identical scores"],
)

PROPS["C02"] = dict(
    title="With pruning disabled the search returns the true Viterbi optimum", level="exploration",
    technique="runtime reference-model oracle: an independent unpruned, unshared token-passing Viterbi (harness/h_viterbi.c) over the loaded grammar and the "
              "utterance's own frame scores (recorded from the search through hook H1), compared with the score and segmentation the real search reports; real code under ASan/UBSan",
    level_text="exploration: generated scenarios (random FSG automata with nulls, loops, branching into and out of states, explicit alternates; right-linear "
               "and slot JSGF incl. word loops; alignment text; vocabularies with one-, two- and many-phone words; fillers and alternates on/off; "
               "lw/wip/pip/silprob/fillprob varied; en-us and fr-fr; triphone and cionly; speech excerpts of 5-400 frames and adversarial signals; all "
               "calling patterns). Open beams (62%): reported score == oracle optimum over all legal alignments ending in the final state at the last "
               "frame (both directions: not lower, not higher), no result iff no legal alignment exists, segmentation reaches the last frame, and the "
               "reported words and boundaries admit an alignment of exactly that score. Default / narrow beams: reported score <= optimum at the "
               "frame where the reported path ends, and <= the best alignment of the reported segmentation.",
    level_note="'beam 0' is still a finite beam of 524288 units in the implementation: a second oracle pass that drops everything within 60000 units of that "
               "residual beam must reach the same optimum, otherwise the case is inconclusive; only 3-state models and one-phone fillers are in the "
               "oracle's domain (both bundled models); the scoring conventions of a 'legal alignment' are listed in DESIGN.md section C02",
    rule="one case = one scenario; non-trivial = oracle and real search both ran; distinct = case index.",
    stages=[dict(harness="h_viterbi", flavor="asan", quick=160, thorough=2500), dict(harness="h_viterbi", flavor="fast", quick=400, thorough=10000, name="h_viterbi_fast")],
    floor=dict(min_evaluations=300, min_distinct=300, counters={"oracle_runs": 300, "exact_optimum_matches": 120, "agreed_no_alignment_exists": 5, "pruned_scores_not_above_optimum": 20,
                                                              "segmentations_achieve_reported_score": 150, "grammars_with_null_arcs": 40, "grammars_with_one_phone_words": 20,
                                                              "grammars_with_word_loops": 30, "grammars_with_fillers": 100, "grammars_without_fillers": 20, "cionly_cases": 10,
                                                              "grammars_with_null_chains_and_short_cuts": 15, "oracle_null_closures": 100, "vocabularies_with_a_word_of_three_pronunciations": 30}),
    assumptions=[A_SAN, A_GEN, "frame scores are the ones the search itself obtained from acmod_score, recorded through hook H1 (compallsen: every senone of every frame)",
                 "the grammar searched is read back from the loaded FSG (that loading preserves the language is C13/C05's subject); between two words a legal "
                 "alignment may pass any chain of its null arcs: the oracle closes them itself (best product over every chain) and does not rely on the composite arcs the library prepared"],
)

PROPS["C09"] = dict(
    title="No sequence of API calls corrupts memory, aborts, or leaks", level="exploration",
    technique="API-history interpreter under ASan/UBSan/LSan (pooled list elements individually guarded by hook H2) with a protocol-state model predicting the "
              "documented return value of out-of-order and degenerate calls, a usability probe after each history, and per-history leak checks",
    level_text="exploration: each case creates a fresh decoder (decoder_init or decoder_create+decoder_reinit; en-us / fr-fr; cmn live/batch/none) and executes a "
               "generated history of 5-160 calls over config_*, decoder_reinit/reinit_feat/retain/free, set_fsg / set_jsgf_string / set_jsgf_file / "
               "set_align_text, add_word / lookup_word, start / process_int16 / process_float32 (chunked, no_search, full_utt) / end, hyp, prob, seg_iter "
               "(walked, continued later, abandoned), lattice (node and link iterators, bestpath, posterior, hyp, seg_iter, retain), nbest (stepped, "
               "hyp, seg, abandoned), alignment (all three levels, children, retained, iterators kept/abandoned), result_json 0/1/2, times, get/set_cmn, "
               "identity MLLR transforms (apply, re-apply with NULL: results must not change), standalone fsg_model / jsgf (also with tags) / endpointer / config objects, and fine-grained polling utterances (word-loop grammar with short words, every query "
               "after each 5-20 ms of the bundled recording, so that partial results flip between words and nothing). 30% of the histories inject audio before start and after end, start twice, "
               "end without start, queries without any grammar, and empty-string / NULL arguments; the model (no grammar / idle / started / ended) "
               "predicts <0, <=0 or NULL for each. After 70% of the histories a conforming utterance on the bundled recording must give the usual "
               "hypothesis; the rest free the decoder as it is (also mid-utterance). Retained lattices and alignments are released before or after "
               "the decoder. LeakSanitizer runs after the last release of every history.",
    level_note="iterators are only held across query calls, never across audio, grammar or utterance-boundary calls (the documentation ties their validity "
               "to the current result); '<= 0 frames' is accepted for audio outside an utterance because the header says '< 0' while the long-standing "
               "behaviour is 0 plus an error message; malformed text inputs belong to C10 and damaged files to C17",
    rule="one case = one history on a fresh decoder; distinct = (case, number of calls).",
    stages=[dict(harness="h_api", flavor="asan", quick=600, thorough=12000, leaks=True),
            # uninitialised reads are invisible to ASan: a slice of the same histories under valgrind memcheck, thorough tier only
            dict(harness="h_api", flavor="plain", valgrind=True, quick=0, thorough=48, tiers=["thorough"], name="h_api_memcheck")],
    floor=dict(min_evaluations=500, min_distinct=400, counters={"config_serialization_round_trips": 20, "decoders_assembled_piecewise_from_memory_buffers": 5, "reinit_feat_with_new_config": 3, "api_calls": 10000, "hostile_histories": 100, "conforming_histories": 250, "utterances_ended": 300,
                                                              "out_of_order_audio_after_end": 15, "out_of_order_audio_before_start": 15, "out_of_order_start_twice": 10,
                                                              "out_of_order_end_without_start": 15, "degenerate_argument_calls": 30, "iterators_abandoned_half_way": 200,
                                                              "lattices_returned": 100, "alignments_returned": 100, "nbest_iterators_returned": 50, "usability_probes": 300,
                                                              "decoders_freed_mid_utterance": 10, "words_added": 50, "standalone_objects_exercised": 100,
                                                              "polling_utterances": 50, "partial_hypothesis_word_to_nothing_flips": 20, "mllr_transforms_applied": 20, "tagged_grammars": 50}),
    assumptions=[A_SAN, A_GEN, "LeakSanitizer's recoverable leak check finds unreachable blocks only; pointers left in dead stack slots can hide a leak"],
)
