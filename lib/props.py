"""Per-property check configuration: which harness stages decide it, budgets, floors."""

A_SAN = "gcc 12 AddressSanitizer/UBSan runtime reports are trusted (red-zone tool: intra-object and far overflows are invisible)"
A_GEN = "cases are generated from VERIF_SEED; nothing is claimed about inputs that were not generated"

PROPS = {}
NOT_APPLICABLE = {}
HOOK_COMMITS = []

PROPS["C19"] = dict(
    title="Log-domain addition is accurate, commutative and monotone",
    level="exploration",
    rule="one case = one (base, shift) table configuration: the 8x5 grid of DESIGN.md plus random bases "
         "(a third of them aimed at the 1/2/4-byte table-width boundaries); inside a case EVERY table index d in "
         "[0, table_size+1000] is compared with a long double reference at 6-7 operand positions, plus a "
         "log/exp round-trip sweep. A case is non-trivial when the table was built and fully enumerated; "
         "distinct = distinct (base, shift).",
    technique="runtime oracle: long-double reference for every table index, under UBSan/ASan",
    level_text="exploration: the finite table-index domain is enumerated completely for each explored (base, shift); "
               "the real-valued base is sampled (grid + random + width-boundary targeted). Held = no disagreement with "
               "the long double reference on any enumerated index.",
    level_note="trusts libm long double; says nothing about bases/shifts not sampled or about logmath_add_exact (no table)",
    exhaustive=False,
    exhaustive_note="the table-index domain d is enumerated completely for each configuration explored; "
                    "the set of configurations (real-valued base) is sampled",
    stages=[
        dict(harness="h_logmath", flavor="fast", quick=80, thorough=8000),
        dict(harness="h_logmath", flavor="asan", quick=40, thorough=1500, name="h_logmath_asan"),
    ],
    floor=dict(min_evaluations=40, counters={"tables_width1": 1, "tables_width2": 1, "tables_width4": 1,
                                            "roundtrip_checks": 1000}),
    assumptions=[A_SAN, A_GEN, "libm long double log1pl/expl as the reference"],
)
