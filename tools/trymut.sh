#!/bin/bash
# usage: tools/trymut.sh <patch.diff> <ID> [tier]
# Runs a check against a seeded change WITHOUT touching /repo: the patch is applied to a scratch git worktree of /repo's HEAD
# (under /tmp, removed afterwards) and the check builds from there (VERIF_REPO); evidence and replays of that run go to a
# scratch directory, so the committed evidence always describes the real tree.
set -u
P=$(readlink -f "$1"); ID=$2; TIER=${3:-quick}
WT=$(mktemp -d /tmp/trymut.XXXXXX); OUT=$(mktemp -d /tmp/trymut-out.XXXXXX)
rmdir "$WT"
git -C /repo worktree add --detach "$WT" HEAD >/dev/null 2>&1 || { echo "cannot create scratch worktree"; exit 3; }
cleanup() { git -C /repo worktree remove --force "$WT" >/dev/null 2>&1; rm -rf "$WT" "$OUT"; }
trap cleanup EXIT
if ! git -C "$WT" apply "$P" 2>/dev/null; then
  if ! git -C "$WT" apply --3way "$P" 2>/dev/null; then echo "patch does not apply: $P"; exit 3; fi
fi
cd /verif && VERIF_REPO="$WT" VERIF_SCRATCH_OUT="$OUT" bin/vcheck "$ID" --tier "$TIER" ${TRYMUT_SEED:+--seed $TRYMUT_SEED} 2>&1 | sed "s|$OUT|<scratch>|g; s|$WT|<scratch-repo>|g" | tail -${TAIL:-6}
rc=${PIPESTATUS[0]}
echo "[trymut] $ID with $(basename $(dirname $P))/$(basename $P): exit $rc"
exit $rc
