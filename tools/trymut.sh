#!/bin/bash
# usage: tools/trymut.sh <patch.diff> <ID> [tier]   -- apply a patch to /repo, run the check, always revert
set -u
P=$(readlink -f "$1"); ID=$2; TIER=${3:-quick}
cd /repo || exit 3
if ! git diff --quiet; then echo "refusing: /repo has uncommitted changes"; exit 3; fi
if ! git apply --check "$P" 2>/dev/null; then
  if git apply --3way --check "$P" 2>/dev/null; then :; else echo "patch does not apply: $P"; exit 3; fi
fi
git apply "$P" || exit 3
cd /verif && bin/vcheck "$ID" --tier "$TIER" 2>&1 | tail -${TAIL:-6}
rc=${PIPESTATUS[0]}
git -C /repo checkout -- . 
echo "[trymut] $ID with $(basename $(dirname $P))/$(basename $P): exit $rc"
exit $rc
