#!/bin/bash
# usage: tools/coverage.sh [tier] [ID...]
# Measures which lines/functions of /repo/src the workloads of the registered checks actually execute:
# every stage is rebuilt with gcov instrumentation (VERIF_COV=1 -> flavour "cov" in lib/vbuild.py), the checks run with
# their evidence redirected to a scratch directory, and gcov output is summarised per file and per function.
# Not a check: it answers "which code do the monitors never drive?" so that workloads can be extended there.
cd "$(dirname "$0")/.." || exit 2
TIER=${1:-quick}; shift
IDS=${@:-C01 C02 C03 C04 C05 C06 C07 C08 C09 C10 C11 C12 C13 C14 C15 C16 C17 C18 C19 C20}
OUT=$(mktemp -d /tmp/vcov.XXXXXX)
if [ "$TIER" != "summary" ]; then
rm -f build/cov/obj/*.gcda
for p in $IDS; do
  VERIF_COV=1 VERIF_SCRATCH_OUT=$OUT bin/vcheck $p --tier $TIER 2>&1 | tail -n 1 | cut -c1-160
done
fi
mkdir -p $OUT/gcov && cd $OUT/gcov || exit 2
for g in /verif/build/cov/obj/*.gcda; do
  gcov -f "$g" 2>/dev/null
done > $OUT/gcov.txt
python3 - "$OUT/gcov.txt" <<'PY'
import re,sys
txt=open(sys.argv[1]).read()
files={}; funcs=[]
for m in re.finditer(r"File '([^']+)'\nLines executed:([\d.]+)% of (\d+)", txt):
    f=m.group(1)
    if '/src/' in f and f.endswith('.c'): files[f.split('/src/')[-1]]=(float(m.group(2)),int(m.group(3)))
for m in re.finditer(r"Function '([^']+)'\nLines executed:([\d.]+)% of (\d+)", txt):
    funcs.append((m.group(1),float(m.group(2)),int(m.group(3))))
tot=sum(n for _,n in files.values()); cov=sum(p*n/100 for p,n in files.values())
print("TOTAL %.1f%% of %d lines in %d files"%(100*cov/max(tot,1),tot,len(files)))
for f,(p,n) in sorted(files.items(), key=lambda x:x[1][0]): print("%6.1f%% %5d %s"%(p,n,f))
print("functions never executed:")
print(" ".join(sorted(set(f for f,p,n in funcs if p==0 and n>=3))))
PY
rm -rf "$OUT"
