#!/usr/bin/env python3
"""Verify a sub-agent's seeded change in its scratch worktree and keep it under /verif/seeded/.

usage: tools/keep_seeded.py <ID> <k> [--check-id <ID2>] [--tier quick]

Steps (all in /tmp/mut/<ID>, never in /repo):
  1. clean tree: build, run the test suite (record passing set), build+run the demo -> must exit 0
  2. apply out/<k>/patch.diff: rebuild, run the suite -> same passing set; run the demo -> must exit != 0
  3. revert.  Then run the /verif check against the patch applied to /repo (tools/trymut.sh) and
     record the outcome in seeded/<ID>-<k>/meta.json.
"""
import json
import os
import re
import shutil
import subprocess
import sys

VERIF = os.path.dirname(os.path.dirname(os.path.abspath(__file__)))


def sh(cmd, cwd=None, timeout=3600):
    p = subprocess.run(cmd, shell=True, cwd=cwd, stdout=subprocess.PIPE, stderr=subprocess.STDOUT, text=True,
                       timeout=timeout)
    return p.returncode, p.stdout


def suite(wt):
    rc, out = sh("cmake -G Ninja -B _build -DCMAKE_BUILD_TYPE=Debug >/dev/null 2>&1; ninja -C _build -k 0 check 2>&1", cwd=wt)
    passed = sorted(set(re.findall(r"Test\s+#\d+:\s+(\S+)\s+\.+\s*Passed", out)))
    return passed, out


def run_check_on(dst, check_id, tier):
    pf = os.path.join(dst, "patch.rebased.diff")
    if not os.path.exists(pf):
        pf = os.path.join(dst, "patch.diff")
    rc, out = sh("TAIL=12 %s/tools/trymut.sh %s %s %s" % (VERIF, pf, check_id, tier), cwd=VERIF)
    keys = sorted(set(re.findall(r"key=(\S+)", out)))
    m = re.search(r"\[trymut\].*exit (\d+)", out)
    crc = int(m.group(1)) if m else None
    return dict(cmd="bin/vcheck %s --tier %s (%s applied to /repo with git apply, reverted afterwards)" % (
        check_id, tier, os.path.basename(pf)), exit=crc, detected=(crc == 1), violation_keys=keys[:12])


def recheck(pid, k, check_id, tier):
    dst = os.path.join(VERIF, "seeded", "%s-%s" % (pid, k))
    mp = os.path.join(dst, "meta.json")
    meta = json.load(open(mp))
    meta["check"] = run_check_on(dst, check_id, tier)
    with open(mp, "w") as f:
        json.dump(meta, f, indent=1)
        f.write("\n")
    print("recheck %s on seeded %s-%s: exit %s keys=%s" % (check_id, pid, k, meta["check"]["exit"], meta["check"]["violation_keys"][:6]))
    return 0


def main():
    pid, k = sys.argv[1], sys.argv[2]
    check_id = pid
    tier = "quick"
    if "--check-id" in sys.argv:
        check_id = sys.argv[sys.argv.index("--check-id") + 1]
    if "--tier" in sys.argv:
        tier = sys.argv[sys.argv.index("--tier") + 1]
    wt = "/tmp/mut/%s" % pid
    src = os.path.join(wt, "out", k)
    patch = os.path.join(src, "patch.diff")
    if "--recheck" in sys.argv:
        return recheck(pid, k, check_id, tier)
    if not os.path.exists(patch):
        print("no patch at", patch)
        return 2
    sh("git checkout -- . ", cwd=wt)
    log = {}
    base_pass, _ = suite(wt)
    rc0, out0 = sh("bash out/%s/run_demo.sh" % k, cwd=wt)
    log["demo_unchanged_exit"] = rc0
    rc, o = sh("git apply out/%s/patch.diff" % k, cwd=wt)
    if rc != 0:
        print("patch does not apply:", o)
        return 2
    mut_pass, _ = suite(wt)
    rc1, out1 = sh("bash out/%s/run_demo.sh" % k, cwd=wt)
    log["demo_changed_exit"] = rc1
    sh("git checkout -- . ; rm -rf _build", cwd=wt)
    log["suite_pass_unchanged"] = len(base_pass)
    log["suite_pass_changed"] = len(mut_pass)
    log["suite_same"] = base_pass == mut_pass
    ok = rc0 == 0 and rc1 != 0 and base_pass == mut_pass
    print("verify %s/%s: demo unchanged exit %d, changed exit %d, suite %d -> %d passing (same=%s) => %s" % (
        pid, k, rc0, rc1, len(base_pass), len(mut_pass), base_pass == mut_pass, "KEEP" if ok else "REJECT"))
    if not ok:
        print(out0[-1500:])
        print(out1[-1500:])
        return 1
    dst = os.path.join(VERIF, "seeded", "%s-%s" % (pid, k))
    os.makedirs(dst, exist_ok=True)
    for f in ("patch.diff", "demo.c", "run_demo.sh", "NOTES.md"):
        if os.path.exists(os.path.join(src, f)):
            shutil.copy(os.path.join(src, f), os.path.join(dst, f))
    # our check against it
    if "--no-check" in sys.argv:
        chk = dict(cmd="(check not run yet)", exit=None, detected=False, violation_keys=[])
    else:
        chk = run_check_on(dst, check_id, tier)
    crc, keys = chk["exit"], chk["violation_keys"]
    notes = ""
    try:
        notes = open(os.path.join(src, "NOTES.md")).read()
    except OSError:
        pass
    meta = dict(
        property=pid,
        breaks=notes.strip().split("\n\n")[0][:1200] if notes else "",
        needs_to_manifest="see NOTES.md",
        verified=dict(
            worktree="scratch git worktree of /repo (removed afterwards)",
            ran=["cmake+ninja check on unchanged and changed tree (passing sets identical: %d tests)" % len(base_pass),
                 "run_demo.sh on unchanged tree -> exit %d" % rc0,
                 "run_demo.sh with patch.diff applied -> exit %d" % rc1],
        ),
        check=chk,
    )
    with open(os.path.join(dst, "meta.json"), "w") as f:
        json.dump(meta, f, indent=1)
        f.write("\n")
    print("check %s on seeded %s-%s: exit %s keys=%s" % (check_id, pid, k, crc, keys[:6]))
    return 0


if __name__ == "__main__":
    sys.exit(main())
