#!/bin/bash
# usage: tools/soak.sh [tier] seed...   -- run every check at the given seeds, one summary line each
cd "$(dirname "$0")/.." || exit 2
TIER=${1:-quick}; shift
for s in "$@"; do
  for p in C01 C02 C03 C04 C05 C06 C07 C08 C09 C10 C11 C12 C13 C14 C15 C16 C17 C18 C19 C20; do
    out=$(bin/vcheck $p --tier $TIER --seed $s 2>&1); rc=$?
    echo "seed=$s rc=$rc $(echo "$out" | tail -n 1 | cut -c1-170)"
    if [ $rc -ne 0 ]; then echo "$out" | grep -a "VIOLATION\|INCONCLUSIVE\|HARNESS" | head -5 | cut -c1-400; fi
  done
done
