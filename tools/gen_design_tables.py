#!/usr/bin/env python3
"""Regenerate the generated blocks of DESIGN.md (findings table, seeded-change table, check table) from
known_findings.json, seeded/*/meta.json and lib/props.py."""
import glob, json, os, re, subprocess, sys
V = os.path.dirname(os.path.dirname(os.path.abspath(__file__)))
sys.path.insert(0, os.path.join(V, "lib"))
from props import PROPS  # noqa: E402

def esc(s):
    return s.replace("|", "\\|").replace("\n", " ")

def findings():
    k = json.load(open(os.path.join(V, "known_findings.json")))["findings"]
    by_commit = {}
    out = ["| property | status | /repo commit | what failed (witness) | violation key(s) |", "|---|---|---|---|---|"]
    rows = {}
    for f in k:
        key = (f.get("commit") or "", f["status"])
        rows.setdefault(key, []).append(f)
    def order(item):
        (c, st), fs = item
        return (0 if st == "open" else 1, sorted(x["property"] for x in fs)[0], c)
    for (c, st), fs in sorted(rows.items(), key=order):
        props = ", ".join(sorted({x["property"] for x in fs}))
        what = fs[0]["what"]
        wit = fs[0].get("witness", "")
        keys = "; ".join("`%s`" % x["key"] for x in fs[:3]) + (" …" if len(fs) > 3 else "")
        out.append("| %s | %s | %s | %s%s | %s |" % (props, st, c or "–", esc(what)[:420], (" — *witness:* " + esc(wit)[:160]) if wit else "", esc(keys)))
    return "\n".join(out)

def seeded():
    out = ["| seeded change | breaks | caught by | violation keys seen (first two) |", "|---|---|---|---|"]
    for d in sorted(glob.glob(os.path.join(V, "seeded", "*", "meta.json"))):
        m = json.load(open(d)); name = os.path.basename(os.path.dirname(d))
        br = re.sub(r"^#\s*C\d+ mutation \d+\s*(--|:)\s*", "", m.get("breaks", "").split("\n")[0])
        ck = m.get("check", {})
        keys = ", ".join("`%s`" % x for x in ck.get("violation_keys", [])[:2])
        reb = " (rebased, see meta.json)" if os.path.exists(os.path.join(os.path.dirname(d), "patch.rebased.diff")) else ""
        how = ("`bin/vcheck %s --tier quick`" % name.split("-")[0]) if ck.get("detected") else ("no longer breaks the property: neutralised by fix %s (see meta.json)" % m["neutralised_by_fix"]) if m.get("neutralised_by_fix") else "**not caught**"
        out.append("| %s%s | %s | %s | %s |" % (name, reb, esc(br)[:150], how, esc(keys)))
    return "\n".join(out)

def checks():
    out = ["| id | level | harness stages (flavour: quick / thorough cases) | floor counters (excerpt) |", "|---|---|---|---|"]
    for pid in sorted(PROPS):
        c = PROPS[pid]
        st = "; ".join("%s %s: %s / %s" % (s["harness"] + (" " + " ".join(s["args"]) if s.get("args") else ""), s["flavor"], s.get("quick"), s.get("thorough")) for s in c["stages"])
        fl = ", ".join(list(c.get("floor", {}).get("counters", {}).keys())[:5])
        out.append("| %s | %s | %s | %s |" % (pid, c["level"], esc(st).replace("-1", "enumerated"), esc(fl)))
    return "\n".join(out)

def main():
    p = os.path.join(V, "DESIGN.md"); s = open(p).read()
    for name, fn in (("findings", findings), ("seeded", seeded), ("checks", checks)):
        b, e = "<!-- BEGIN GENERATED %s -->" % name, "<!-- END GENERATED %s -->" % name
        if b in s and e in s:
            s = s[:s.index(b) + len(b)] + "\n" + fn() + "\n" + s[s.index(e):]
    open(p, "w").write(s)
    print("DESIGN.md tables regenerated")
main()
