/* h_jsgf.c -- C05: JSGF compilation preserves the language of the grammar.
 * VH_SOURCES: vfsa.c
 *
 * The generator builds a JSGF *AST*, prints it (random layout, comments, tags, weights) and
 * keeps the AST as ground truth.  Two independent analyses of the AST:
 *   (1) semantics: least fix-point evaluation of every rule to the set of word strings of
 *       length <= L (sequence = concatenation, | = union, [] = +epsilon, * and + = Kleene
 *       closure, <NULL> = {epsilon}, <VOID> = {}, tags ignored, rule references by fix point);
 *   (2) representability: a walk of the reference graph with an explicit stack decides whether
 *       every recursive reference is a genuine tail call (then the rule denotes a regular
 *       language and must compile to exactly (1)), or the grammar has left / embedded recursion
 *       or a reachable undefined rule (then compilation must be REFUSED).
 * The compiled FSG's language up to L is enumerated by vfsa.c from the arcs observed through
 * fsg_model_arcs(), for the raw and the closed FSG and for jsgf_read_string().
 */
#include "vh.h"
#include "vfsa.h"
#include <math.h>
#include <soundswallower/jsgf.h>
#include <soundswallower/fsg_model.h>
#include <soundswallower/logmath.h>
#include <soundswallower/err.h>

#define NSYM 3
#define MAXL 6
#define MAXR 8
#define NWORDS 18            /* 64-bit words for 1093 strings */
static int L = 5;            /* string length bound (5 quick, 6 thorough) */
static long TSZ;             /* number of strings of length <= L */
static int s_len[1100]; static long s_val[1100]; static long s_off[MAXL + 2]; static long s_pow[MAXL + 2];

static logmath_t *lmath;
/* the terminals: plain words, or quoted tokens (with blanks and escaped quotes inside). A quoted token is ONE word; the library keeps the
 * quote characters in the word's spelling (noted in DESIGN.md as an observation), so the expected label is the token as written */
static const char *alpha_plain[NSYM] = { "go", "forward", "ten" };
static const char *alpha_quoted[NSYM] = { "\"go on\"", "forward", "\"t \\\"x\\\" n\"" };
static const char **alpha = alpha_plain;

typedef struct lang { uint64_t b[NWORDS]; } lang;

enum { N_TOK, N_SEQ, N_ALT, N_GROUP, N_OPT, N_STAR, N_PLUS, N_REF, N_NULL, N_VOID };
typedef struct node {
    int type, sym, rule, nkid, ntags;
    struct node *kid[4];
    float w[4]; int hasw;
} node;
typedef struct gram {
    int nrules; node *body[MAXR]; int is_public[MAXR]; char name[MAXR][24]; int case_names;
    int has_void, has_weights, has_backref, nnodes;
} gram;

static long ncases(int tier, long req) { if (req >= 0) return req; return tier ? 150000 : 5000; }
static void setup(void)
{
    int l; long k;
    err_set_loglevel(ERR_FATAL);
    lmath = logmath_init(1.0001, 0, 1);
    L = vh_tier ? 6 : 5;
    TSZ = vfsa_table_size(NSYM, L);
    s_pow[0] = 1; s_off[0] = 0;
    for (l = 0; l <= MAXL; ++l) { s_pow[l + 1] = s_pow[l] * NSYM; s_off[l + 1] = s_off[l] + s_pow[l]; }
    for (k = 0; k < TSZ; ++k) { int ll = 0; while (k >= s_off[ll + 1]) ++ll; s_len[k] = ll; s_val[k] = k - s_off[ll]; }
}

/* ---------------- languages ---------------- */
static void l_clear(lang *a) { memset(a, 0, sizeof(*a)); }
static void l_set(lang *a, long i) { a->b[i >> 6] |= (uint64_t)1 << (i & 63); }
static int l_has(const lang *a, long i) { return (int)((a->b[i >> 6] >> (i & 63)) & 1); }
static void l_or(lang *a, const lang *b) { int i; for (i = 0; i < NWORDS; ++i) a->b[i] |= b->b[i]; }
static int l_eq(const lang *a, const lang *b) { return memcmp(a, b, sizeof(*a)) == 0; }
static long l_count(const lang *a) { long n = 0, i; for (i = 0; i < TSZ; ++i) n += l_has(a, i); return n; }
static void l_concat(const lang *a, const lang *b, lang *out)
{
    long i, j; lang r; l_clear(&r);
    for (i = 0; i < TSZ; ++i) {
        if (!l_has(a, i)) continue;
        for (j = 0; j < TSZ; ++j) {
            if (!l_has(b, j) || s_len[i] + s_len[j] > L) continue;
            l_set(&r, s_off[s_len[i] + s_len[j]] + s_val[i] * s_pow[s_len[j]] + s_val[j]);
        }
    }
    *out = r;
}
static void l_star(const lang *a, lang *out)
{
    lang x, nx; l_clear(&x); l_set(&x, 0);
    for (;;) { l_concat(a, &x, &nx); l_set(&nx, 0); l_or(&nx, &x); if (l_eq(&nx, &x)) break; x = nx; }
    *out = x;
}
static void l_fmt(long idx, char *buf, size_t n)
{
    int str[16], len, k; size_t o = 0;
    vfsa_table_string(NSYM, idx, str, &len);
    buf[0] = 0;
    if (len == 0) { snprintf(buf, n, "<empty string>"); return; }
    for (k = 0; k < len && o + 12 < n; ++k) o += (size_t)snprintf(buf + o, n - o, "%s%s", k ? " " : "", alpha[str[k]]);
}

/* ---------------- AST ---------------- */
static node *mk(gram *g, int type) { node *n = (node *)calloc(1, sizeof(node)); n->type = type; n->rule = -1; ++g->nnodes; return n; }
static void node_free(node *n) { int i; if (!n) return; for (i = 0; i < n->nkid; ++i) node_free(n->kid[i]); free(n); }
static void gram_free(gram *g) { int i; for (i = 0; i < g->nrules; ++i) node_free(g->body[i]); }

typedef struct genopt { int allow_backref, allow_undef, allow_void, allow_weights; } genopt;
static node *gen_alt(gram *g, vh_rng *r, int depth, int cur, const genopt *o);

static node *gen_item(gram *g, vh_rng *r, int depth, int cur, int last, const genopt *o)
{
    node *n; double u = vh_unit(r);
    if (depth <= 0 || u < 0.42) { n = mk(g, N_TOK); n->sym = (int)vh_below(r, NSYM); }
    else if (u < 0.60) {
        n = mk(g, N_REF);
        if (o->allow_undef && vh_chance(r, 0.08)) n->rule = -1;                       /* undefined rule */
        else if (o->allow_backref && vh_chance(r, last ? 0.45 : 0.08)) { n->rule = (int)vh_below(r, (uint32_t)(cur + 1)); g->has_backref = 1; } /* self or earlier rule */
        else if (cur + 1 < g->nrules) n->rule = cur + 1 + (int)vh_below(r, (uint32_t)(g->nrules - cur - 1));
        else { n->type = N_TOK; n->sym = (int)vh_below(r, NSYM); }
    }
    else if (u < 0.72) { n = mk(g, N_GROUP); n->kid[n->nkid++] = gen_alt(g, r, depth - 1, cur, o); }
    else if (u < 0.82) { n = mk(g, N_OPT); n->kid[n->nkid++] = gen_alt(g, r, depth - 1, cur, o); }
    else if (u < 0.90) { n = mk(g, vh_chance(r, 0.5) ? N_STAR : N_PLUS); n->kid[n->nkid++] = gen_item(g, r, depth - 1, cur, 0, o); if (n->kid[0]->type == N_NULL || n->kid[0]->type == N_VOID) { n->kid[0]->type = N_TOK; n->kid[0]->sym = 0; } n->kid[0]->ntags = 0; /* the operator must follow its atom directly */ }
    else if (u < 0.96 || !o->allow_void) n = mk(g, N_NULL);
    else { n = mk(g, N_VOID); g->has_void = 1; }
    if (vh_chance(r, 0.12)) n->ntags = vh_range(r, 1, 2);
    return n;
}
static node *gen_seq(gram *g, vh_rng *r, int depth, int cur, const genopt *o)
{
    node *n = mk(g, N_SEQ); int k, ni = vh_range(r, 1, 3);
    for (k = 0; k < ni; ++k) n->kid[n->nkid++] = gen_item(g, r, depth, cur, k == ni - 1, o);
    return n;
}
static node *gen_alt(gram *g, vh_rng *r, int depth, int cur, const genopt *o)
{
    node *n = mk(g, N_ALT); int k, na = vh_chance(r, 0.5) ? 1 : vh_range(r, 2, 3);
    for (k = 0; k < na; ++k) n->kid[n->nkid++] = gen_seq(g, r, depth, cur, o);
    if (o->allow_weights && vh_chance(r, 0.35)) {
        n->hasw = 1; g->has_weights = 1;
        for (k = 0; k < na; ++k) n->w[k] = VH_PICK(r, ((float[]){ 1.0f, 2.0f, 0.5f, 0.2f, 0.001f, 10.0f, 1000.0f, 3.0f, 0.25f, 0.3f }));
    }
    return n;
}

/* ---------------- printer ---------------- */
static void p_ws(vh_sb *b, vh_rng *r)
{
    switch (vh_below(r, 14)) {
    case 0: vh_sb_printf(b, "  "); break;
    case 1: vh_sb_printf(b, "\n\t"); break;
    case 2: vh_sb_printf(b, " /* note */ "); break;
    case 3: vh_sb_printf(b, " // eol comment\n "); break;
    default: vh_sb_printf(b, " "); break;
    }
}
static void p_alt(const gram *g, const node *n, vh_sb *b, vh_rng *r);
static void p_item(const gram *g, const node *n, vh_sb *b, vh_rng *r)
{
    int t;
    switch (n->type) {
    case N_TOK: vh_sb_printf(b, "%s", alpha[n->sym]); break;
    case N_REF: if (n->rule < 0) { if (g->case_names && g->nrules < 16) vh_sb_printf(b, "<RULE>"); /* all four letters upper case is rule 15: undefined here */ else if (!g->case_names && g->name[0][0] == 'r') vh_sb_printf(b, "<R%s>", g->name[0] + 1); /* differs from a defined name only in case */ else vh_sb_printf(b, "<nosuchrule>"); } else vh_sb_printf(b, "<%s>", g->name[n->rule]); break;
    case N_GROUP: vh_sb_printf(b, "("); p_ws(b, r); p_alt(g, n->kid[0], b, r); p_ws(b, r); vh_sb_printf(b, ")"); break;
    case N_OPT: vh_sb_printf(b, "["); p_ws(b, r); p_alt(g, n->kid[0], b, r); p_ws(b, r); vh_sb_printf(b, "]"); break;
    case N_STAR: p_item(g, n->kid[0], b, r); vh_sb_printf(b, vh_chance(r, 0.3) ? " *" : "*"); break;
    case N_PLUS: p_item(g, n->kid[0], b, r); vh_sb_printf(b, vh_chance(r, 0.3) ? " +" : "+"); break;
    case N_NULL: vh_sb_printf(b, "<NULL>"); break;
    case N_VOID: vh_sb_printf(b, "<VOID>"); break;
    default: break;
    }
    for (t = 0; t < n->ntags; ++t) vh_sb_printf(b, " {tag%d}", t);
}
static void p_alt(const gram *g, const node *n, vh_sb *b, vh_rng *r)
{
    int k, j;
    for (k = 0; k < n->nkid; ++k) {
        const node *s = n->kid[k];
        if (k) { p_ws(b, r); vh_sb_printf(b, "|"); p_ws(b, r); }
        if (n->hasw) { vh_sb_printf(b, "/%g/", (double)n->w[k]); p_ws(b, r); }
        for (j = 0; j < s->nkid; ++j) { if (j) p_ws(b, r); p_item(g, s->kid[j], b, r); }
    }
}
static void p_gram(const gram *g, vh_sb *b, vh_rng *r, const int *order)
{
    int k;
    switch (vh_below(r, 4)) {
    case 0: vh_sb_printf(b, "#JSGF V1.0;\n"); break;
    case 1: vh_sb_printf(b, "#JSGF V1.0 UTF-8;\n"); break;
    case 2: vh_sb_printf(b, "#JSGF V1.0 UTF-8 en;\n"); break;
    default: vh_sb_printf(b, "#JSGF;\n"); break;
    }
    if (vh_chance(r, 0.3)) vh_sb_printf(b, "/* generated\n   grammar */\n");
    vh_sb_printf(b, "grammar g;\n");
    for (k = 0; k < g->nrules; ++k) {
        int q = order[k];
        if (vh_chance(r, 0.2)) vh_sb_printf(b, "// rule %d\n", q);
        vh_sb_printf(b, "%s<%s>%s=", g->is_public[q] ? "public " : "", g->name[q], vh_chance(r, 0.5) ? " " : "");
        p_ws(b, r);
        p_alt(g, g->body[q], b, r);
        vh_sb_printf(b, "%s;\n", vh_chance(r, 0.3) ? " " : "");
    }
}

/* ---------------- (1) semantics ---------------- */
static void ev(const gram *g, const node *n, const lang *rl, lang *out)
{
    int k; lang t, acc;
    switch (n->type) {
    case N_TOK: l_clear(out); if (L >= 1) l_set(out, s_off[1] + n->sym); break;
    case N_NULL: l_clear(out); l_set(out, 0); break;
    case N_VOID: l_clear(out); break;
    case N_REF: if (n->rule < 0) l_clear(out); else *out = rl[n->rule]; break;
    case N_GROUP: ev(g, n->kid[0], rl, out); break;
    case N_OPT: ev(g, n->kid[0], rl, out); l_set(out, 0); break;
    case N_STAR: ev(g, n->kid[0], rl, &t); l_star(&t, out); break;
    case N_PLUS: ev(g, n->kid[0], rl, &t); l_star(&t, &acc); l_concat(&t, &acc, out); break;
    case N_SEQ: l_clear(&acc); l_set(&acc, 0); for (k = 0; k < n->nkid; ++k) { ev(g, n->kid[k], rl, &t); l_concat(&acc, &t, &acc); } *out = acc; break;
    case N_ALT: l_clear(&acc); for (k = 0; k < n->nkid; ++k) { ev(g, n->kid[k], rl, &t); l_or(&acc, &t); } *out = acc; break;
    }
}
static void semantics(const gram *g, lang *rl)
{
    int k, changed, guard = 0;
    for (k = 0; k < g->nrules; ++k) l_clear(&rl[k]);
    do {
        changed = 0;
        for (k = 0; k < g->nrules; ++k) { lang t; ev(g, g->body[k], rl, &t); if (!l_eq(&t, &rl[k])) { rl[k] = t; changed = 1; } }
    } while (changed && ++guard < 4000);
}

/* ---------------- (2) representability ---------------- */
enum { REP_OK = 0, REP_LEFT_OR_MID = 1, REP_EMBEDDED_CHAIN = 2, REP_UNDEFINED = 4, REP_DEAD_ONLY = 8 };
typedef struct frame { int rule; int tail; } frame;
static int rep_flags; static long rep_steps;
static int productive_rule[MAXR];
/* can this expansion produce any string at all (independent of the length bound)? */
static int productive(const gram *g, const node *n)
{
    int k;
    switch (n->type) {
    case N_TOK: case N_NULL: case N_OPT: case N_STAR: return 1;
    case N_VOID: return 0;
    case N_REF: return n->rule >= 0 && productive_rule[n->rule];
    case N_GROUP: case N_PLUS: return productive(g, n->kid[0]);
    case N_SEQ: for (k = 0; k < n->nkid; ++k) if (!productive(g, n->kid[k])) return 0; return 1;
    case N_ALT: for (k = 0; k < n->nkid; ++k) if (productive(g, n->kid[k])) return 1; return 0;
    }
    return 0;
}
static void productivity(const gram *g)
{
    int k, changed;
    for (k = 0; k < g->nrules; ++k) productive_rule[k] = 0;
    do { changed = 0; for (k = 0; k < g->nrules; ++k) if (!productive_rule[k] && productive(g, g->body[k])) { productive_rule[k] = 1; changed = 1; } } while (changed);
}
/* dead = inside a sequence that can produce nothing (it contains <VOID> or an unproductive item): what
 * the compiler does with references there cannot change the language, so nothing is demanded of it */
static void rep_walk(const gram *g, const node *n, int tail, frame *st, int depth, int dead)
{
    int k;
    if (++rep_steps > 200000) return;
    switch (n->type) {
    case N_SEQ: { int d = dead || !productive(g, n); for (k = 0; k < n->nkid; ++k) rep_walk(g, n->kid[k], tail && k == n->nkid - 1, st, depth, d); break; }
    case N_ALT: for (k = 0; k < n->nkid; ++k) rep_walk(g, n->kid[k], tail, st, depth, dead); break;
    case N_GROUP: case N_OPT: rep_walk(g, n->kid[0], tail, st, depth, dead); break;
    case N_STAR: case N_PLUS: rep_walk(g, n->kid[0], 0, st, depth, dead); break;
    case N_REF:
        if (n->rule < 0) { rep_flags |= dead ? REP_DEAD_ONLY : REP_UNDEFINED; break; }
        for (k = depth - 1; k >= 0; --k) if (st[k].rule == n->rule) break;
        if (k >= 0) {
            /* recursive reference to frame k: a tail call iff this reference and every reference that
             * created the frames above k are in tail position of their own bodies */
            int ok = tail, j;
            for (j = k + 1; j < depth; ++j) ok = ok && st[j].tail;
            if (!ok) rep_flags |= dead ? REP_DEAD_ONLY : tail ? REP_EMBEDDED_CHAIN : REP_LEFT_OR_MID;
        } else if (depth < MAXR + 1) {
            st[depth].rule = n->rule; st[depth].tail = tail;
            rep_walk(g, g->body[n->rule], 1, st, depth + 1, dead);
        }
        break;
    default: break;
    }
}
static int representability(const gram *g, int top)
{
    frame st[MAXR + 2];
    rep_flags = 0; rep_steps = 0;
    productivity(g);
    st[0].rule = top; st[0].tail = 1;
    rep_walk(g, g->body[top], 1, st, 1, 0);
    if (rep_steps > 200000) return -1;
    return rep_flags;
}

/* ---------------- compiled side ---------------- */
static int fsg_lang(fsg_model_t *fsg, lang *out, int *narcs)
{
    vfsa f; int syms[NSYM], s, n; int64_t *tab; long k;
    n = vfsa_from_model(fsg, &f, 0);
    if (n < 0) { vfsa_free(&f); return -1; }
    if (narcs) *narcs = n;
    for (s = 0; s < NSYM; ++s) { syms[s] = vfsa_find_label(&f, alpha[s]); if (syms[s] < 0) syms[s] = -2; }
    tab = (int64_t *)malloc(sizeof(int64_t) * (size_t)TSZ);
    vfsa_table(&f, NSYM, syms, L, 1, tab);
    l_clear(out);
    for (k = 0; k < TSZ; ++k) if (tab[k] > VF_NEG) l_set(out, k);
    /* any label outside the alphabet is a foreign word */
    for (s = 0; s < f.nlabels; ++s) { int q, known = 0; for (q = 0; q < NSYM; ++q) if (!strcmp(f.labels[s], alpha[q])) known = 1; if (!known) { free(tab); vfsa_free(&f); return -2; } }
    free(tab); vfsa_free(&f);
    return 0;
}

static void report_diff(const char *key, const char *what, const lang *want, const lang *got, const char *text)
{
    long k; char s[120];
    for (k = 0; k < TSZ; ++k) if (l_has(want, k) != l_has(got, k)) break;
    l_fmt(k, s, sizeof(s));
    vh_viol(key, "%s: \"%s\" is %s by the JSGF rule but %s by the compiled FSG (%ld vs %ld strings of length <= %d)\n%.700s",
            what, s, l_has(want, k) ? "denoted" : "not denoted", l_has(got, k) ? "accepted" : "rejected", l_count(want), l_count(got), L, text);
}

static void check_stochastic(fsg_model_t *raw, const char *text)
{
    int i;
    for (i = 0; i < fsg_model_n_state(raw); ++i) {
        fsg_arciter_t *it; double sum = 0; int n = 0;
        for (it = fsg_model_arcs(raw, i); it; it = fsg_arciter_next(it)) { fsg_link_t *l = fsg_arciter_get(it); sum += exp((double)l->logs2prob * log(1.0001)); ++n; }
        if (n == 0) continue;
        vh_count("choice_points_checked", n > 1);
        if (fabs(sum - 1.0) > (n + 1) * 1.5e-4) {
            vh_viol(n > 1 ? "weights_not_normalised" : "weight_single_alternative", "raw FSG state %d: probabilities of its %d outgoing arcs sum to %.6f, not 1\n%.700s", i, n, sum, text);
            return;
        }
    }
}

static void run(long i, vh_rng *r)
{
    gram g; genopt o; vh_sb sb; lang rl[MAXR], want, got;
    int k, order[MAXR], rep, top = 0, npublic = 0, narcs = 0, cls_refuse, either;
    jsgf_t *j; jsgf_rule_t *rule; fsg_model_t *raw = NULL, *closed = NULL, *viaread = NULL;
    const char *cname;
    float lw = VH_PICK(r, ((float[]){ 1.0f, 6.5f, 9.5f }));

    memset(&g, 0, sizeof(g));
    g.nrules = vh_chance(r, 0.3) ? 1 : vh_range(r, 2, 6);
    o.allow_backref = vh_chance(r, 0.4); o.allow_undef = vh_chance(r, 0.06); o.allow_void = vh_chance(r, 0.15); o.allow_weights = vh_chance(r, 0.5);
    alpha = vh_chance(r, 0.25) ? alpha_quoted : alpha_plain;
    if (alpha == alpha_quoted) vh_count("grammars_with_quoted_tokens", 1);
    if (vh_chance(r, 0.3)) {
        /* rule names are case-sensitive: names that differ only in letter case are different rules */
        for (k = 0; k < g.nrules; ++k) { const char *base = "rule"; int q; for (q = 0; q < 4; ++q) g.name[k][q] = (char)(((k >> q) & 1) ? base[q] - 32 : base[q]); if (k >= 16) snprintf(g.name[k] + 4, sizeof(g.name[k]) - 4, "%d", k / 16); else g.name[k][4] = 0; }
        g.case_names = 1; vh_count("grammars_with_rule_names_differing_only_in_case", 1);
    } else
    for (k = 0; k < g.nrules; ++k) snprintf(g.name[k], sizeof(g.name[k]), "%s%d", VH_PICK(r, ((const char *[]){ "r", "rule", "X", "cmd_" })), k);
    for (k = 0; k < g.nrules; ++k) g.body[k] = gen_alt(&g, r, vh_range(r, 1, 5), k, &o);
    g.is_public[0] = 1;
    if (vh_chance(r, 0.04)) g.is_public[0] = 0;   /* no public rule at all */
    for (k = 0; k < g.nrules; ++k) npublic += g.is_public[k];
    for (k = 0; k < g.nrules; ++k) order[k] = k;
    for (k = g.nrules - 1; k > 0; --k) { int q = (int)vh_below(r, (uint32_t)(k + 1)), t = order[k]; order[k] = order[q]; order[q] = t; }
    vh_sb_init(&sb);
    p_gram(&g, &sb, r, order);

    semantics(&g, rl);
    want = rl[top];
    rep = representability(&g, top);
    if (rep < 0) { vh_inconc("representability analysis exceeded its step budget"); goto out; }
    cls_refuse = (rep & ~REP_DEAD_ONLY) != REP_OK;
    either = !cls_refuse && (rep & REP_DEAD_ONLY);
    cname = either ? "problem_only_in_unspeakable_part" : (rep & REP_UNDEFINED) ? "undefined_rule" : (rep & REP_LEFT_OR_MID) ? "left_or_embedded_recursion" : (rep & REP_EMBEDDED_CHAIN) ? "embedded_recursion_via_tail_reference" : g.has_void ? "void" : g.has_backref ? "tail_recursion" : "plain";
    vh_class(cname);
    vh_desc("%d rules, %d AST nodes, class=%s, weights=%d, public=%d, lw=%.1f; rule denotes %ld strings of length <= %d\n%s", g.nrules, g.nnodes, cname, g.has_weights, npublic, lw, l_count(&want), L, sb.s);

    vh_ctx("jsgf_parse_string");
    j = jsgf_parse_string(sb.s, NULL);
    if (!j) {
        if (!cls_refuse && !either) vh_viol("parse_refused_valid", "jsgf_parse_string refused a well-formed grammar:\n%.900s", sb.s);
        else vh_count("refused_at_parse", 1);
        goto out;
    }
    rule = jsgf_get_rule(j, vh_path("g.%s", g.name[top]));
    if (!rule) { vh_viol("rule_lookup", "jsgf_get_rule cannot find <g.%s>\n%.600s", g.name[top], sb.s); jsgf_grammar_free(j); goto out; }
    if (jsgf_rule_public(rule) != g.is_public[top]) vh_viol("public_flag", "rule <%s> public flag %d, expected %d", g.name[top], jsgf_rule_public(rule), g.is_public[top]);
    vh_ctx("jsgf_build_fsg_raw");
    raw = jsgf_build_fsg_raw(j, rule, lmath, lw);
    vh_ctx("jsgf_build_fsg");
    closed = jsgf_build_fsg(j, rule, lmath, lw);
    if (cls_refuse) {
        if (raw || closed) {
            lang gl; l_clear(&gl); if (closed) fsg_lang(closed, &gl, NULL);
            vh_viol(vh_path("not_refused|%s", cname), "a grammar with %s was compiled instead of refused (rule denotes %ld strings of length <= %d as a context-free grammar, the FSG accepts %ld)\n%.900s",
                    cname, l_count(&want), L, l_count(&gl), sb.s);
        } else vh_count("refused_as_required", 1);
        vh_count(vh_path("class_%s", cname), 1);
    } else {
        if (either && !raw && !closed) vh_count("refused_unspeakable_problem", 1);
        else if (!raw || !closed) vh_viol(vh_path("refused_valid|%s", cname), "a representable grammar was refused (raw=%p closed=%p)\n%.900s", (void *)raw, (void *)closed, sb.s);
        else {
            int e1 = fsg_lang(raw, &got, &narcs);
            if (e1 == -2) vh_viol("foreign_word", "the compiled FSG contains a word that is not in the grammar\n%.700s", sb.s);
            else if (!l_eq(&want, &got)) report_diff(vh_path("language_differs|%s", cname), "raw FSG", &want, &got, sb.s);
            else {
                fsg_lang(closed, &got, NULL);
                if (!l_eq(&want, &got)) report_diff(vh_path("language_differs_closed|%s", cname), "closed FSG", &want, &got, sb.s);
            }
            if (!g.has_void && !g.has_backref) check_stochastic(raw, sb.s);
            /* building again from the same parsed grammar must give the same thing */
            {
                fsg_model_t *again = jsgf_build_fsg(j, rule, lmath, lw); lang g2;
                if (!again) vh_viol("rebuild_refused", "second jsgf_build_fsg on the same grammar returned NULL");
                else { fsg_lang(again, &g2, NULL); if (!l_eq(&g2, &want)) report_diff(vh_path("language_differs_rebuild|%s", cname), "FSG built a second time from the same jsgf_t", &want, &g2, sb.s); fsg_model_free(again); }
            }
            vh_count(vh_path("class_%s", cname), 1);
            vh_count("languages_compared", 1);
            vh_max("max_fsg_arcs", narcs);
        }
    }
    /* every rule of the grammar in turn, from the same parsed object: what one compilation leaves behind in the
     * jsgf_t (also a refused one) must not show in the next */
    {
        int ord2[MAXR + 1], nr = g.nrules, q;
        for (q = 0; q < nr; ++q) ord2[q] = q;
        for (q = nr - 1; q > 0; --q) { int b = (int)vh_below(r, (uint32_t)(q + 1)), t = ord2[q]; ord2[q] = ord2[b]; ord2[b] = t; }
        ord2[nr] = top;
        for (q = 0; q <= nr; ++q) {
            int kk = ord2[q], rk = representability(&g, kk), refuse_k, either_k, useraw = vh_chance(r, 0.3); jsgf_rule_t *rr; fsg_model_t *f; lang gk;
            if (rk < 0) continue;
            refuse_k = (rk & ~REP_DEAD_ONLY) != REP_OK; either_k = !refuse_k && (rk & REP_DEAD_ONLY);
            rr = jsgf_get_rule(j, vh_path("g.%s", g.name[kk]));
            if (!rr) { vh_viol("rule_lookup", "jsgf_get_rule cannot find <g.%s>\n%.600s", g.name[kk], sb.s); break; }
            vh_ctx("jsgf_build_fsg(in sequence)");
            f = useraw ? jsgf_build_fsg_raw(j, rr, lmath, lw) : jsgf_build_fsg(j, rr, lmath, lw);
            if (refuse_k) {
                if (f) vh_viol("not_refused_in_sequence", "rule <%s> (compilation %d from the same jsgf_t) is not representable but was compiled\n%.900s", g.name[kk], q + 1, sb.s);
                else vh_count("rules_refused_in_sequence", 1);
            } else if (!f) {
                if (!either_k) vh_viol("refused_valid_in_sequence", "rule <%s> (compilation %d from the same jsgf_t) is representable but was refused\n%.900s", g.name[kk], q + 1, sb.s);
            } else {
                int e = fsg_lang(f, &gk, NULL);
                if (e == -2) vh_viol("foreign_word_in_sequence", "rule <%s> compiled as number %d from the same jsgf_t contains a word that is not in the grammar\n%.700s", g.name[kk], q + 1, sb.s);
                else if (!l_eq(&rl[kk], &gk)) report_diff("language_differs_in_sequence", vh_path("rule <%s> compiled as number %d from the same jsgf_t", g.name[kk], q + 1), &rl[kk], &gk, sb.s);
                vh_count("rules_compiled_in_sequence", 1);
            }
            if (f) fsg_model_free(f);
        }
    }
    jsgf_grammar_free(j);
    /* the one-call entry point: uses "the" public rule */
    vh_ctx("jsgf_read_string");
    viaread = jsgf_read_string(sb.s, lmath, lw);
    if (npublic == 0) {
        if (viaread) vh_viol("not_refused|no_public_rule", "jsgf_read_string compiled a grammar that has no public rule\n%.600s", sb.s);
        else vh_count("refused_as_required", 1);
        vh_count("class_no_public_rule", 1);
    } else if (cls_refuse) {
        if (viaread) vh_viol(vh_path("not_refused|%s", cname), "jsgf_read_string compiled a grammar with %s\n%.600s", cname, sb.s);
    } else if (!viaread && either) { /* allowed */ }
    else if (!viaread) vh_viol(vh_path("refused_valid|%s", cname), "jsgf_read_string refused a representable grammar\n%.600s", sb.s);
    else { fsg_lang(viaread, &got, NULL); if (!l_eq(&want, &got)) report_diff(vh_path("language_differs_read_string|%s", cname), "FSG from jsgf_read_string", &want, &got, sb.s); }

    if (!cls_refuse && l_count(&want) > 1) vh_nontrivial("%016llx", (unsigned long long)vh_hash(sb.s, sb.n, VH_H0));
    else if (cls_refuse) vh_nontrivial("R%016llx", (unsigned long long)vh_hash(sb.s, sb.n, VH_H0));
    if (i % 500 == 3) vh_sample("class=%s, %ld strings denoted (L=%d): %s", cname, l_count(&want), L, sb.s);
out:
    if (raw) fsg_model_free(raw);
    if (closed) fsg_model_free(closed);
    if (viaread) fsg_model_free(viaread);
    vh_sb_free(&sb);
    gram_free(&g);
}

static const vh_harness H = { "h_jsgf", ncases, setup, run, NULL, 120 };
int main(int argc, char **argv) { return vh_main(argc, argv, &H); }
