/* h_api.c -- C09: no sequence of API calls corrupts memory, aborts, or leaks.
 * VH_SOURCES: vfsa.c vdec.c
 *
 * One case = one generated history of public API calls on a fresh decoder, executed under ASan/UBSan
 * (pooled list elements individually guarded by hook H2).  70% of the histories follow the documented
 * protocol, 30% also inject the out-of-order calls and the null / empty arguments the statement lists.
 * Monitors:
 *   - process fate (sanitizer report, signal, assertion, exit, watchdog) attributed to the case by the driver,
 *   - a protocol model (no grammar / idle / started / ended) predicting the documented failure value of
 *     every out-of-order or degenerate call,
 *   - "left usable": after the history a protocol-conforming utterance must recognise the bundled recording,
 *   - LeakSanitizer after every reference the history took has been released.
 */
#include "vh.h"
#include "vfsa.h"
#include "vdec.h"
#include <math.h>
#include <unistd.h>
#include <soundswallower/lattice.h>
#include <soundswallower/alignment.h>
#include <soundswallower/err.h>
#include <soundswallower/fsg_model.h>
#include <soundswallower/jsgf.h>
#include <soundswallower/endpointer.h>
#include <soundswallower/vad.h>
#include <soundswallower/s3file.h>
#include <soundswallower/ckd_alloc.h>
#include <soundswallower/mllr.h>
#include <soundswallower/bin_mdef.h>
#include <soundswallower/feat.h>
#include <soundswallower/acmod.h>
#include <soundswallower/tmat.h>
#include <soundswallower/ptm_mgau.h>

/* exported by the library for the JavaScript binding (js/exported_functions.txt) but declared in no installed header */
int decoder_init_cleanup(decoder_t *d);
fe_t *decoder_init_fe(decoder_t *d);
feat_t *decoder_init_feat_s3file(decoder_t *d, s3file_t *lda);
acmod_t *decoder_init_acmod_pre(decoder_t *d);
int decoder_init_acmod_post(decoder_t *d);
dict_t *decoder_init_dict_s3file(decoder_t *d, s3file_t *dict, s3file_t *fdict);
int decoder_init_grammar_s3file(decoder_t *d, s3file_t *fsg_file, s3file_t *jsgf_file);


enum { ST_IDLE, ST_STARTED, ST_ENDED };
typedef struct actx {
    decoder_t *d; int lang; int have_gram, st, utts, frames_this_utt; long fed;
    vd_audio au; long off;                 /* audio of the current utterance */
    seg_iter_t *seg; hyp_iter_t *nb; lattice_t *lat[4]; int nlat; alignment_t *al[4]; int nal; alignment_iter_t *ait;
    int extra_refs; int hostile; vh_rng *r; int nops; vh_sb log;
    int added; vd_cfg cfg; int logging;
} actx;

static long ncases(int tier, long req) { if (req >= 0) return req; return tier ? 30000 : 600; }
static void setup(void) { err_set_loglevel(ERR_FATAL); vd_init(); }

#define LOG(c, ...) do { if ((c)->log.n < 6000) vh_sb_printf(&(c)->log, __VA_ARGS__); } while (0)
static void expect(actx *c, int ok, const char *key, const char *fmt, ...)
{
    char msg[400]; va_list ap;
    if (ok) return;
    va_start(ap, fmt); vsnprintf(msg, sizeof(msg), fmt, ap); va_end(ap);
    vh_viol(key, "%s; history: %s", msg, c->log.s ? c->log.s : "");
}

/* iterators live only between two state-changing calls */
static void drop_iters(actx *c)
{
    if (c->seg) { vh_ctx("seg_iter_free"); seg_iter_free(c->seg); c->seg = NULL; LOG(c, "seg_iter_free "); }
    if (c->nb) { vh_ctx("hyp_iter_free"); hyp_iter_free(c->nb); c->nb = NULL; LOG(c, "hyp_iter_free "); }
    if (c->ait) { vh_ctx("alignment_iter_free"); alignment_iter_free(c->ait); c->ait = NULL; LOG(c, "alignment_iter_free "); }
}

static const char *tagged_jsgf[2] = { "#JSGF V1.0; grammar t; public <t> = go {act} ( forward {dir} | backward {dir} ) [ ten {n} {m} ] <u>; <u> = meters {unit} | <NULL> {nothing};",
                                      "#JSGF V1.0; grammar t; public <t> = avance {act} de {p} ( dix {n} | deux {n} ) [ mètres {unit} ];" };
static void op_grammar(actx *c)
{
    vd_gram g; int rv, how = (int)vh_below(c->r, 5);
    drop_iters(c);
    vd_gram_random(c->r, c->lang, how == 4 ? VG_JSGF_SLOTS : -1, 0.6, &g);
    if (vh_chance(c->r, 0.1)) { vh_sb_reset(&g.text); vh_sb_printf(&g.text, "%s", tagged_jsgf[c->lang]); g.kind = VG_JSGF_SLOTS; vh_count("tagged_grammars", 1); }
    if (how == 4 && (g.kind == VG_JSGF_SLOTS || g.kind == VG_JSGF_RIGHTLINEAR)) {
        char *path = vh_path("%s/g%ld.gram", vh_tmpdir(), vh_case);
        vh_write_file(path, g.text.s, g.text.n);
        vh_ctx("decoder_set_jsgf_file"); rv = decoder_set_jsgf_file(c->d, path); unlink(path);
        LOG(c, "set_jsgf_file=%d ", rv);
    } else if (how == 3 && g.kind != VG_ALIGN_TEXT) {
        /* the JavaScript binding's way: the grammar text as an in-memory file handed to decoder_init_grammar_s3file */
        s3file_t *s3 = s3file_init(g.text.s, g.text.n);
        vh_ctx("decoder_init_grammar_s3file"); rv = g.kind == VG_FSG_TEXT ? decoder_init_grammar_s3file(c->d, s3, NULL) : decoder_init_grammar_s3file(c->d, NULL, s3);
        s3file_free(s3); LOG(c, "init_grammar_s3file(%s)=%d ", vd_gram_kind_name(g.kind), rv); vh_count("grammars_loaded_from_memory_files", 1);
    } else { rv = vd_gram_load(c->d, &g); LOG(c, "set_%s=%d ", vd_gram_kind_name(g.kind), rv); }
    if (rv == 0) { c->have_gram = 1; vh_count("grammars_loaded", 1); }
    else vh_count("grammar_refused", 1);
    /* the statement allows grammar changes between utterances only; the interpreter never does it inside one */
    vd_gram_free(&g);
}

static void op_words(actx *c)
{
    char w[40], ph[200] = ""; int n = vh_range(c->r, 1, 6), k, rv; char *lk; bin_mdef_t *md = c->d->acmod->mdef;
    drop_iters(c);
    snprintf(w, sizeof(w), "zzword%ld_%d", vh_case, c->added);
    /* any sequence over the model's non-filler phones: most two-phone beginnings do not occur in the dictionary */
    for (k = 0; k < n; ++k) { int ci, g = 0; do { ci = (int)vh_below(c->r, (uint32_t)md->n_ciphone); } while (md->phone[ci].info.ci.filler && ++g < 50); strcat(ph, k ? " " : ""); strcat(ph, md->ciname[ci]); }
    vh_ctx("decoder_add_word"); rv = decoder_add_word(c->d, w, ph, (int)vh_below(c->r, 2));
    LOG(c, "add_word(%s)=%d ", w, rv);
    if (rv >= 0) { ++c->added; vh_count("words_added", 1); }
    /* "usable immediately": half of the new words go straight into a grammar or an alignment text, and through a short utterance */
    if (rv >= 0 && c->st != ST_STARTED && vh_chance(c->r, 0.5)) {
        const char *g1 = c->lang == VD_FR ? "avance" : "go", *g2 = c->lang == VD_FR ? "dix" : "ten"; int gr; long nr; const int16_t *rec = vd_recording(c->lang == VD_FR ? 1 : 0, &nr);
        if (vh_chance(c->r, 0.5)) { vh_ctx("decoder_set_align_text"); gr = decoder_set_align_text(c->d, vh_path("%s %s %s", g1, w, g2)); }
        else { vh_ctx("decoder_set_jsgf_string"); gr = decoder_set_jsgf_string(c->d, vh_path("#JSGF V1.0; grammar w; public <w> = %s ( %s | %s ) [ %s ];", g1, w, g2, w)); }
        LOG(c, "use_new_word=%d ", gr);
        expect(c, gr == 0, "new_word_not_usable", "a grammar naming the word just added ('%s' = %s) is refused: %d", w, ph, gr);
        if (gr == 0) { c->have_gram = 1; vh_ctx("decoder_start_utt"); if (decoder_start_utt(c->d) == 0) { vh_ctx("decoder_process_int16"); decoder_process_int16(c->d, (int16 *)rec, (size_t)(nr > 12000 ? 12000 : nr), 0, 0); vh_ctx("decoder_end_utt"); decoder_end_utt(c->d); vh_ctx("decoder_hyp"); (void)decoder_hyp(c->d, NULL); vh_ctx("decoder_alignment"); (void)decoder_alignment(c->d); c->st = ST_ENDED; ++c->utts; } vh_count("new_words_used_in_a_grammar", 1); }
    }
    vh_ctx("decoder_lookup_word"); lk = decoder_lookup_word(c->d, w);
    if (rv >= 0) expect(c, lk != NULL, "added_word_not_found", "decoder_lookup_word(%s) is NULL right after decoder_add_word returned %d", w, rv);
    ckd_free(lk);
    vh_ctx("decoder_lookup_word"); lk = decoder_lookup_word(c->d, "nosuchwordatall"); expect(c, lk == NULL, "lookup_of_unknown_word", "decoder_lookup_word of an unknown word is not NULL"); ckd_free(lk);
}

static void new_audio(actx *c)
{
    vd_audio_free(&c->au);
    vd_audio_make(c->r, c->lang, vh_chance(c->r, 0.25) ? 1 : 0, 40000, &c->au); c->off = 0;
}

static void op_start(actx *c)
{
    int rv;
    drop_iters(c);
    vh_ctx("decoder_start_utt"); rv = decoder_start_utt(c->d); LOG(c, "start=%d ", rv);
    if (!c->have_gram) expect(c, rv < 0, "start_without_grammar_succeeds", "decoder_start_utt returned %d with no grammar loaded", rv);
    else if (c->st == ST_STARTED) { expect(c, rv < 0, "second_start_succeeds", "decoder_start_utt returned %d inside an utterance", rv); vh_count("out_of_order_start_twice", 1); }
    else { expect(c, rv == 0, "start_fails", "decoder_start_utt returned %d on an idle decoder with a grammar", rv); if (rv == 0) { c->st = ST_STARTED; ++c->utts; c->frames_this_utt = 0; new_audio(c); } }
}

static void op_process(actx *c)
{
    long n; int rv, full = 0, nosearch = vh_chance(c->r, 0.15), use_float = vh_chance(c->r, 0.3);
    drop_iters(c);
    if (c->st != ST_STARTED) { if (!c->au.s) new_audio(c); c->off = 0; }
    n = c->au.n - c->off; if (n < 0) n = 0;
    if (c->st == ST_STARTED && c->off == 0 && vh_chance(c->r, 0.2)) full = 1;
    else { long m = VH_PICK(c->r, ((long[]){ 0, 1, 159, 160, 400, 2048, 5000, 16000 })); if (m < n) n = m; }
    vh_ctx(use_float ? "decoder_process_float32" : "decoder_process_int16");
    if (use_float) { float *f = (float *)malloc(sizeof(float) * (size_t)(n + 1)); long k; for (k = 0; k < n; ++k) f[k] = c->au.s[c->off + k] / 32768.0f; rv = decoder_process_float32(c->d, f, (size_t)n, nosearch, full); free(f); }
    else rv = decoder_process_int16(c->d, (int16 *)c->au.s + c->off, (size_t)n, nosearch, full);
    LOG(c, "process(%ld%s%s)=%d ", n, full ? ",full" : "", nosearch ? ",nosearch" : "", rv);
    if (c->st == ST_STARTED) { expect(c, rv >= 0, "process_fails", "decoder_process returned %d inside an utterance", rv); c->off += n; c->fed += n; if (rv > 0) c->frames_this_utt += rv; vh_count("audio_calls_in_utterance", 1); }
    else { expect(c, rv <= 0, c->st == ST_ENDED ? "audio_after_end_accepted" : "audio_before_start_accepted", "decoder_process returned %d (frames searched) although no utterance is in progress (%s)", rv, c->st == ST_ENDED ? "after decoder_end_utt" : "before decoder_start_utt"); vh_count(c->st == ST_ENDED ? "out_of_order_audio_after_end" : "out_of_order_audio_before_start", 1); }
}

static void op_end(actx *c)
{
    int rv;
    drop_iters(c);
    vh_ctx("decoder_end_utt"); rv = decoder_end_utt(c->d); LOG(c, "end=%d ", rv);
    if (c->st == ST_STARTED) { expect(c, rv >= 0, "end_fails", "decoder_end_utt returned %d inside an utterance", rv); c->st = ST_ENDED; vh_count("utterances_ended", 1); }
    else { expect(c, rv < 0, "end_without_start_succeeds", "decoder_end_utt returned %d although no utterance is in progress", rv); vh_count("out_of_order_end_without_start", 1); }
}

static void walk_seg(actx *c, seg_iter_t *s, int maxsteps, int keep)
{
    int k = 0;
    while (s && k < maxsteps) { int sf, ef; int32 a, l; const char *w; vh_ctx("seg_iter_word"); w = seg_iter_word(s); (void)w; seg_iter_frames(s, &sf, &ef); seg_iter_prob(s, &a, &l); vh_ctx("seg_iter_next"); s = seg_iter_next(s); ++k; }
    if (s) { if (keep && !c->seg) c->seg = s; else { vh_ctx("seg_iter_free"); seg_iter_free(s); vh_count("iterators_abandoned_half_way", 1); } }
}

static void op_query(actx *c)
{
    int q = (int)vh_below(c->r, 14); int32 sc; const char *h;
    if (!c->have_gram && !c->hostile) q = 11 + (int)vh_below(c->r, 3);   /* queries on a decoder without any search are only made in hostile histories */
    switch (q) {
    case 0: vh_ctx("decoder_hyp"); h = decoder_hyp(c->d, &sc); LOG(c, "hyp%s ", h ? "+" : "-"); if (h) vh_count("hypotheses_returned", 1); break;
    case 1: vh_ctx("decoder_prob"); sc = decoder_prob(c->d); LOG(c, "prob "); break;
    case 2: { seg_iter_t *s; vh_ctx("decoder_seg_iter"); s = decoder_seg_iter(c->d); LOG(c, "seg%s ", s ? "+" : "-"); if (s) vh_count("segmentations_returned", 1); walk_seg(c, s, vh_chance(c->r, 0.5) ? 1000 : vh_range(c->r, 0, 3), 1); break; }
    case 3: if (c->seg) { seg_iter_t *s = c->seg; c->seg = NULL; LOG(c, "seg_continue "); walk_seg(c, s, vh_range(c->r, 1, 4), 1); } break;
    case 4: {
        lattice_t *dag; vh_ctx("decoder_lattice"); dag = decoder_lattice(c->d); LOG(c, "lattice%s ", dag ? "+" : "-");
        if (dag) {
            latnode_iter_t *ni; int k = 0, lim = vh_chance(c->r, 0.5) ? 100000 : vh_range(c->r, 0, 5);
            vh_count("lattices_returned", 1);
            vh_ctx("ps_latnode_iter");
            for (ni = ps_latnode_iter(dag); ni; ni = ps_latnode_iter_next(ni)) {
                latnode_t *n = ps_latnode_iter_node(ni); int16 fef, lef; latlink_iter_t *li; int kk = 0;
                latnode_times(n, &fef, &lef); (void)ps_latnode_word(dag, n); (void)ps_latnode_baseword(dag, n);
                for (li = vh_chance(c->r, 0.5) ? ps_latnode_exits(n) : ps_latnode_entries(n); li; li = ps_latlink_iter_next(li)) { latlink_t *l = ps_latlink_iter_link(li); int16 sf; latnode_t *src; int32 as; latlink_times(l, &sf); ps_latlink_nodes(l, &src); (void)ps_latlink_word(dag, l); (void)ps_latlink_baseword(dag, l); (void)ps_latlink_prob(dag, l, &as); (void)ps_latlink_pred(l); if (++kk > 3 && vh_chance(c->r, 0.3)) { ps_latlink_iter_free(li); vh_count("iterators_abandoned_half_way", 1); break; } }
                if (++k > lim) { ps_latnode_iter_free(ni); vh_count("iterators_abandoned_half_way", 1); break; }
            }
            (void)lattice_n_frames(dag);
            if (vh_chance(c->r, 0.4)) { latlink_t *bl; vh_ctx("lattice_bestpath"); bl = lattice_bestpath(dag, 1.0f); if (bl) { vh_ctx("lattice_hyp"); (void)lattice_hyp(dag, bl); vh_ctx("lattice_posterior"); (void)lattice_posterior(dag, 1.0f); { seg_iter_t *s; vh_ctx("lattice_seg_iter"); s = lattice_seg_iter(dag, bl); walk_seg(c, s, vh_range(c->r, 0, 6), 0); } } }
            if (c->nlat < 4 && vh_chance(c->r, 0.3)) { vh_ctx("lattice_retain"); c->lat[c->nlat++] = lattice_retain(dag); LOG(c, "lattice_retain "); }
        }
        break; }
    case 5: {
        hyp_iter_t *nb; int k = 0, lim = vh_range(c->r, 0, 6);
        if (c->nb) break;
        vh_ctx("decoder_nbest"); nb = decoder_nbest(c->d); LOG(c, "nbest%s ", nb ? "+" : "-");
        if (nb) vh_count("nbest_iterators_returned", 1);
        while (nb && k < lim) { int32 s2; vh_ctx("hyp_iter_next"); nb = hyp_iter_next(nb); if (!nb) break; vh_ctx("hyp_iter_hyp"); (void)hyp_iter_hyp(nb, &s2); if (vh_chance(c->r, 0.5)) { seg_iter_t *s; vh_ctx("hyp_iter_seg"); s = hyp_iter_seg(nb); walk_seg(c, s, vh_range(c->r, 0, 5), 0); } ++k; }
        if (nb) { if (vh_chance(c->r, 0.5)) c->nb = nb; else { vh_ctx("hyp_iter_free"); hyp_iter_free(nb); vh_count("iterators_abandoned_half_way", 1); } }
        break; }
    case 6: if (c->nb) { int32 s2; LOG(c, "nbest_continue "); vh_ctx("hyp_iter_next"); c->nb = hyp_iter_next(c->nb); if (c->nb) { vh_ctx("hyp_iter_hyp"); (void)hyp_iter_hyp(c->nb, &s2); } } break;
    case 7: {
        alignment_t *al; vh_ctx("decoder_alignment"); al = decoder_alignment(c->d); LOG(c, "alignment%s ", al ? "+" : "-");
        if (al) {
            alignment_iter_t *it; int lvl = (int)vh_below(c->r, 3), k = 0, lim = vh_chance(c->r, 0.5) ? 100000 : vh_range(c->r, 0, 5);
            vh_count("alignments_returned", 1);
            if (c->ait) { alignment_iter_free(c->ait); c->ait = NULL; }      /* iterators of the previous alignment die with it */
            vh_ctx("alignment_iter");
            for (it = lvl == 0 ? alignment_words(al) : lvl == 1 ? alignment_phones(al) : alignment_states(al); it; it = alignment_iter_next(it)) {
                int st, du; alignment_iter_t *ch; (void)alignment_iter_name(it); (void)alignment_iter_seg(it, &st, &du);
                ch = alignment_iter_children(it); if (ch) { (void)alignment_iter_name(ch); if (vh_chance(c->r, 0.5)) { while (ch) ch = alignment_iter_next(ch); } else { alignment_iter_free(ch); vh_count("iterators_abandoned_half_way", 1); } }
                if (++k > lim) { if (vh_chance(c->r, 0.5) && c->nal < 4) { c->al[c->nal++] = alignment_retain(al); c->ait = it; LOG(c, "alignment_retain+iter_kept "); } else { alignment_iter_free(it); vh_count("iterators_abandoned_half_way", 1); } break; }
            }
            if (c->nal < 4 && vh_chance(c->r, 0.2)) { vh_ctx("alignment_retain"); c->al[c->nal++] = alignment_retain(al); LOG(c, "alignment_retain "); }
        }
        break; }
    case 8: if (c->ait) { LOG(c, "alignment_iter_continue "); vh_ctx("alignment_iter_next"); (void)alignment_iter_name(c->ait); c->ait = alignment_iter_next(c->ait); } break;
    case 9: { const char *js; int lvl = (int)vh_below(c->r, 3); vh_ctx("decoder_result_json"); js = decoder_result_json(c->d, vh_unit(c->r) * 10.0, lvl); LOG(c, "json%d%s ", lvl, js ? "+" : "-"); if (js) { size_t L = strlen(js); expect(c, L > 0 && js[L - 1] == '\n', "json_without_newline", "decoder_result_json text does not end with a newline"); vh_count("json_results_returned", 1); } break; }
    case 10: { double a, b2, c2; vh_ctx("decoder_utt_time"); decoder_utt_time(c->d, &a, &b2, &c2); decoder_all_time(c->d, &a, &b2, &c2); (void)decoder_n_frames(c->d); LOG(c, "times "); break; }
    case 11: { const char *m; vh_ctx("decoder_get_cmn"); m = decoder_get_cmn(c->d, (int)vh_below(c->r, 2)); LOG(c, "get_cmn%s ", m ? "+" : "-"); if (m && vh_chance(c->r, 0.3) && c->st != ST_STARTED) { char *cp = strdup(m); int rv; vh_ctx("decoder_set_cmn"); rv = decoder_set_cmn(c->d, cp); expect(c, rv == 0, "set_cmn_rejects_get_cmn", "decoder_set_cmn refuses the string decoder_get_cmn returned (%s): %d", cp, rv); free(cp); } break; }
    case 12: { config_t *cf = decoder_config(c->d); const char *js; vh_ctx("config_serialize_json"); js = config_serialize_json(cf); (void)config_int(cf, "samprate"); (void)config_str(cf, "hmm"); (void)config_typeof(cf, "beam"); (void)config_get(cf, "nosuchkey"); LOG(c, "config%s ", js ? "+" : "-"); (void)decoder_logmath(c->d); (void)decoder_fe(c->d); (void)decoder_feat(c->d); break; }
    default: { vh_ctx("decoder_retain"); if (c->extra_refs < 3 && vh_chance(c->r, 0.5)) { decoder_retain(c->d); ++c->extra_refs; LOG(c, "retain "); } else if (c->extra_refs > 0) { int rc = decoder_free(c->d); --c->extra_refs; LOG(c, "free=%d ", rc); expect(c, rc > 0, "refcount_wrong", "decoder_free returned %d while the history still holds a reference", rc); } break; }
    }
}

/* fine-grained polling: a word loop with short words over the bundled recording, queried after every 10 ms.  Partial results
 * then change shape from chunk to chunk (a word, then only fillers, then words again) */
static void op_poll(actx *c)
{
    static const char *loop[2] = { "#JSGF V1.0; grammar l; public <l> = ( a | go | ten | eight | two | forward | meters | one | four | oh )*;",
                                   "#JSGF V1.0; grammar l; public <l> = ( a | de | dix | deux | avance | mètres | un | et | eau )*;" };
    long nr, off = 0, lim; const int16_t *rec = vd_recording(c->lang == VD_FR ? 1 : 0, &nr); int rv, flips = 0, had = 0; int step = VH_PICK(c->r, ((int[]){ 160, 160, 320, 80 }));
    drop_iters(c);
    vh_ctx("decoder_set_jsgf_string"); rv = decoder_set_jsgf_string(c->d, loop[c->lang]); if (rv != 0) return; c->have_gram = 1;
    vh_ctx("decoder_start_utt"); if (decoder_start_utt(c->d) != 0) return;
    lim = vh_chance(c->r, 0.5) ? nr : vh_range(c->r, 2000, 20000);
    while (off < lim && off < nr) {
        long n = nr - off > step ? step : nr - off; const char *h; int q;
        vh_ctx("decoder_process_int16"); decoder_process_int16(c->d, (int16 *)rec + off, (size_t)n, 0, 0); off += n;
        for (q = 0; q < 2; ++q) { vh_ctx("decoder_hyp"); h = decoder_hyp(c->d, NULL); if (h) had = 1; else if (had) { ++flips; had = 0; } }
        if (vh_chance(c->r, 0.05)) { seg_iter_t *s; vh_ctx("decoder_seg_iter"); s = decoder_seg_iter(c->d); walk_seg(c, s, vh_range(c->r, 0, 4), 0); }
        if (vh_chance(c->r, 0.03)) { vh_ctx("decoder_result_json"); (void)decoder_result_json(c->d, 0, (int)vh_below(c->r, 3)); }
    }
    vh_ctx("decoder_end_utt"); decoder_end_utt(c->d); vh_ctx("decoder_hyp"); (void)decoder_hyp(c->d, NULL);
    c->st = ST_ENDED; ++c->utts;
    LOG(c, "poll(%ld samples by %d, %d word->nothing flips) ", off, step, flips);
    vh_count("polling_utterances", 1); vh_count("partial_hypothesis_word_to_nothing_flips", flips);
}

/* a new configuration object for the same model (other cmn / compallsen): decoder_reinit consumes it */
static void op_reinit_config(actx *c)
{
    vd_cfg n = c->cfg; config_t *cf; int rv;
    drop_iters(c);
    if (c->st == ST_STARTED) return;
    n.cmn = VH_PICK(c->r, ((const char *[]){ "live", "batch", "none" }));
    if (vh_chance(c->r, 0.5)) {
        /* decoder_reinit_feat with a NEW configuration object (consumed by the decoder): only the front end and the feature module are
         * rebuilt, the grammar, the search and the acoustic model stay and go on being used -- with whatever they remember of the
         * configuration they were created from */
        cf = vd_make_config(&n);
        vh_ctx("decoder_reinit_feat"); rv = decoder_reinit_feat(c->d, cf); LOG(c, "reinit_feat(new config cmn=%s)=%d ", n.cmn, rv);
        expect(c, rv == 0, "reinit_feat_with_new_config_fails", "decoder_reinit_feat with a valid new configuration returned %d", rv);
        if (rv == 0) { c->cfg = n; vh_count("reinit_feat_with_new_config", 1); }
        return;
    }
    n.compallsen = (int)vh_below(c->r, 2);
    cf = vd_make_config(&n);
    vh_ctx("decoder_reinit"); rv = decoder_reinit(c->d, cf); LOG(c, "reinit(new config cmn=%s compallsen=%d)=%d ", n.cmn, n.compallsen, rv);
    expect(c, rv == 0, "reinit_with_new_config_fails", "decoder_reinit with a valid new configuration returned %d", rv);
    if (rv == 0) { c->cfg = n; c->have_gram = 0; c->st = ST_IDLE; vh_count("reinits_with_new_config", 1); }
}
static void op_logfile(actx *c)
{
    int rv;
    if (!c->logging) { char *path = vh_path("%s/log%ld.txt", vh_tmpdir(), vh_case); vh_ctx("decoder_set_logfile"); rv = decoder_set_logfile(c->d, path); LOG(c, "set_logfile=%d ", rv); if (rv == 0) { c->logging = 1; err_set_loglevel(ERR_INFO); } }
    else { vh_ctx("decoder_set_logfile"); rv = decoder_set_logfile(c->d, NULL); err_set_loglevel(ERR_FATAL); c->logging = 0; LOG(c, "set_logfile(NULL)=%d ", rv); unlink(vh_path("%s/log%ld.txt", vh_tmpdir(), vh_case)); }
    expect(c, rv == 0, "set_logfile_fails", "decoder_set_logfile returned %d", rv);
    vh_count("logfile_switches", 1);
}

/* an identity MLLR transform (A = I, b = 0, h = 1) of the model's shape: applying it must change nothing */
static void op_mllr(actx *c)
{
    char *path = vh_path("%s/mllr%ld_%d", vh_tmpdir(), vh_case, c->nops); vh_sb b; int f, j, k, nf = feat_dimension1(decoder_feat(c->d)); mllr_t *m, *rv;
    drop_iters(c);
    if (c->st == ST_STARTED) return;
    vh_sb_init(&b); vh_sb_printf(&b, "1\n%d\n", nf);
    for (f = 0; f < nf; ++f) { int vl = (int)feat_dimension2(decoder_feat(c->d), f); vh_sb_printf(&b, "%d\n", vl); for (j = 0; j < vl; ++j) { for (k = 0; k < vl; ++k) vh_sb_printf(&b, "%s ", j == k ? "1.0" : "0.0"); vh_sb_printf(&b, "\n"); } for (j = 0; j < vl; ++j) vh_sb_printf(&b, "0.0 "); vh_sb_printf(&b, "\n"); for (j = 0; j < vl; ++j) vh_sb_printf(&b, "1.0 "); vh_sb_printf(&b, "\n"); }
    vh_write_file(path, b.s, b.n); vh_sb_free(&b);
    vh_ctx("mllr_read"); m = mllr_read(path); unlink(path);
    if (!m) { expect(c, 0, "identity_mllr_not_read", "mllr_read refuses a well-formed identity transform"); return; }
    vh_ctx("decoder_apply_mllr"); rv = decoder_apply_mllr(c->d, m);
    LOG(c, "apply_mllr(identity)%s ", rv ? "+" : "-");
    expect(c, rv != NULL, "identity_mllr_refused", "decoder_apply_mllr returned NULL for an identity transform of the model's shape");
    /* the header says the decoder consumes the pointer: the history keeps no reference */
    vh_count("mllr_transforms_applied", 1);
}

/* degenerate arguments the documentation covers */
static void op_degenerate(actx *c)
{
    int k = (int)vh_below(c->r, 7), rv; char *lk;
    if (c->st == ST_STARTED && k < 5) return;
    drop_iters(c);
    switch (k) {
    case 0: vh_ctx("decoder_set_align_text"); rv = decoder_set_align_text(c->d, ""); LOG(c, "align_text('')=%d ", rv); vh_count(rv < 0 ? "empty_align_text_refused" : "empty_align_text_accepted", 1); if (rv == 0) c->have_gram = 1; break;   /* no return value is documented for it: either outcome, it only has to return */
    case 1: vh_ctx("decoder_add_word"); rv = decoder_add_word(c->d, "", "AA", 1); LOG(c, "add_word('')=%d ", rv); expect(c, rv < 0, "empty_word_accepted", "decoder_add_word(\"\") returned %d", rv); break;
    case 2: vh_ctx("decoder_add_word"); rv = decoder_add_word(c->d, vh_path("zzempty%ld", vh_case), "", 1); LOG(c, "add_word(pron '')=%d ", rv); expect(c, rv < 0, "empty_pronunciation_accepted", "decoder_add_word with an empty pronunciation returned %d", rv); break;
    case 3: vh_ctx("decoder_set_jsgf_string"); rv = decoder_set_jsgf_string(c->d, ""); LOG(c, "jsgf('')=%d ", rv); expect(c, rv < 0, "empty_jsgf_accepted", "decoder_set_jsgf_string(\"\") returned %d", rv); break;
    case 4: vh_ctx("decoder_reinit_feat"); rv = decoder_reinit_feat(c->d, NULL); LOG(c, "reinit_feat(NULL)=%d ", rv); expect(c, rv == 0, "reinit_feat_null_fails", "decoder_reinit_feat(d, NULL) returned %d", rv); break;
    case 5: if (c->st != ST_STARTED) { mllr_t *rv2; vh_ctx("decoder_apply_mllr"); rv2 = decoder_apply_mllr(c->d, NULL); LOG(c, "apply_mllr(NULL)%s ", rv2 ? "+" : "-"); vh_count("mllr_null_calls", 1); } break;   /* documented: NULL re-applies the existing transform */
    default: vh_ctx("decoder_lookup_word"); lk = decoder_lookup_word(c->d, ""); LOG(c, "lookup('')%s ", lk ? "+" : "-"); expect(c, lk == NULL, "empty_word_found", "decoder_lookup_word(\"\") is not NULL"); ckd_free(lk); break;
    }
    vh_count("degenerate_argument_calls", 1);
}

/* objects that live beside the decoder */
static void op_standalone(actx *c)
{
    int k = (int)vh_below(c->r, 4);
    if (k == 0) {
        vd_gram g; s3file_t *s3; fsg_model_t *f; vd_gram_random(c->r, c->lang, VG_FSG_TEXT, 0.5, &g);
        s3 = s3file_init(g.text.s, g.text.n); vh_ctx("fsg_model_read_s3file"); f = fsg_model_read_s3file(s3, decoder_logmath(c->d), 1.0f); s3file_free(s3);
        if (f) { fsg_arciter_t *it; char *wp = vh_path("%s/w%ld.fsg", vh_tmpdir(), vh_case); fsg_model_t *f2; vh_ctx("fsg_model_arcs"); it = fsg_model_arcs(f, 0); if (it) { (void)fsg_arciter_get(it); fsg_arciter_free(it); }
            vh_ctx("fsg_model_writefile"); fsg_model_writefile(f, wp); vh_ctx("fsg_model_readfile"); f2 = fsg_model_readfile(wp, decoder_logmath(c->d), 1.0f); unlink(wp); if (f2) fsg_model_free(f2);
            vh_ctx("fsg_model_writefile_fsm"); fsg_model_writefile_fsm(f, wp); unlink(wp); vh_ctx("fsg_model_writefile_symtab"); fsg_model_writefile_symtab(f, wp); unlink(wp);
            fsg_model_retain(f); fsg_model_free(f); vh_ctx("fsg_model_free"); fsg_model_free(f); }
        vd_gram_free(&g); LOG(c, "fsg_standalone ");
    } else if (k == 1) {
        vd_gram g; jsgf_t *j; vd_gram_random(c->r, c->lang, VG_JSGF_SLOTS, 0.5, &g);
        if (vh_chance(c->r, 0.4)) { vh_sb_reset(&g.text); vh_sb_printf(&g.text, "%s", tagged_jsgf[c->lang]); vh_count("tagged_grammars", 1); }
        vh_ctx("jsgf_parse_string"); j = jsgf_parse_string(g.text.s, NULL);
        if (j) { jsgf_rule_t *ru = jsgf_get_public_rule(j); if (ru) { fsg_model_t *f; (void)jsgf_rule_name(ru); vh_ctx("jsgf_build_fsg"); f = jsgf_build_fsg(j, ru, decoder_logmath(c->d), 2.0f); if (f) fsg_model_free(f); } vh_ctx("jsgf_grammar_free"); jsgf_grammar_free(j); }
        vd_gram_free(&g); LOG(c, "jsgf_standalone ");
    } else if (k == 2) {
        endpointer_t *ep; vh_ctx("endpointer_init"); ep = endpointer_init(0, 0, VAD_LOOSE, 16000, 0);
        if (ep) { size_t fs = endpointer_frame_size(ep); int16 *buf = (int16 *)calloc(fs + 1, sizeof(int16)); int n = vh_range(c->r, 0, 30), q; size_t out; for (q = 0; q < n; ++q) { size_t j; for (j = 0; j < fs; ++j) buf[j] = (int16)vh_range(c->r, -3000, 3000); vh_ctx("endpointer_process"); (void)endpointer_process(ep, buf); } if (vh_chance(c->r, 0.5)) { vh_ctx("endpointer_end_stream"); (void)endpointer_end_stream(ep, buf, (size_t)vh_range(c->r, 0, (int)fs), &out); } (void)endpointer_in_speech(ep); free(buf); endpointer_retain(ep); endpointer_free(ep); vh_ctx("endpointer_free"); endpointer_free(ep); }
        LOG(c, "endpointer_standalone ");
    } else {
        config_t *cf; vh_ctx("config_parse_json"); cf = config_parse_json(NULL, "{\"samprate\": 8000, \"beam\": 1e-20, \"compallsen\": true, \"cmn\": \"none\"}");
        if (cf) { (void)config_serialize_json(cf); config_set_int(cf, "nfft", 512); config_set_str(cf, "dict", NULL); config_unset(cf, "beam"); config_retain(cf); config_free(cf); vh_ctx("config_free"); config_free(cf); }
        /* string values as users have them: paths with accents, other scripts, quotes, backslashes, control characters.  The text
         * produced by config_serialize_json is read back; printable values must come back unchanged */
        {
            static const char *vals[] = { "/home/andr\xc3\xa9/mod\xc3\xa8le", "\xe6\x97\xa5\xe6\x9c\xac\xe8\xaa\x9e/dict.txt", "C:\\models\\en \"us\"", "plain", "\xc3\xbc", "tab\there", "line\nbreak", "\x01\x1f\x7f", "\xf0\x9f\x8e\xa4 mic", "" };
            static const char *keys[] = { "hmm", "dict", "fdict", "jsgf", "fsg", "mllr", "featparams" };
            config_t *c1 = config_init(NULL), *c2; const char *js; int q, nk = vh_range(c->r, 1, 7); const char *set[7];
            for (q = 0; q < nk; ++q) { set[q] = VH_PICK(c->r, vals); vh_ctx("config_set_str"); config_set_str(c1, keys[q], set[q]); }
            vh_ctx("config_serialize_json"); js = config_serialize_json(c1);
            expect(c, js != NULL, "config_serialize_null", "config_serialize_json returned NULL for a configuration with %d string values", nk);
            if (js) {
                char *copy = strdup(js); vh_ctx("config_parse_json(serialized)"); c2 = config_parse_json(NULL, copy);
                expect(c, c2 != NULL, "config_serialized_text_not_parsable", "config_parse_json refuses the text config_serialize_json produced: %.200s", copy);
                if (c2) {
                    for (q = 0; q < nk; ++q) { const char *back = config_str(c2, keys[q]); int printable = 1; const char *z; for (z = set[q]; *z; ++z) if ((unsigned char)*z < 0x20 || *z == 0x7f) printable = 0;
                        if (printable && *set[q] && (!back || strcmp(back, set[q]))) expect(c, 0, "config_string_changed_by_serialization", "%s was set to \"%s\", serialised and parsed back as \"%s\"", keys[q], set[q], back ? back : "(null)"); }
                    config_free(c2);
                }
                free(copy); vh_count("config_serialization_round_trips", 1);
            }
            config_free(c1);
        }
        LOG(c, "config_standalone ");
    }
    vh_count("standalone_objects_exercised", 1);
}

static const char *ref_jsgf[2] = { "#JSGF V1.0; grammar r; public <r> = go ( forward | backward ) ( ten | two ) ( meters | meter );",
                                   "#JSGF V1.0; grammar r; public <r> = ( avance | recule ) de ( dix | deux ) ( mètres | mètre );" };

/* the probe utterance: returns the hypothesis (copied) and score */
static int probe(decoder_t *d, int lang, char *hyp, size_t hn, int32 *score)
{
    long nr; const int16_t *rec = vd_recording(lang == VD_FR ? 1 : 0, &nr); const char *h; int rv;
    decoder_set_cmn(d, "40,3,-1");
    rv = decoder_set_jsgf_string(d, ref_jsgf[lang]);
    if (rv == 0) rv = decoder_start_utt(d);
    if (rv == 0) { decoder_process_int16(d, (int16 *)rec, (size_t)nr, 0, 1); rv = decoder_end_utt(d); }
    *score = 0;
    h = rv >= 0 ? decoder_hyp(d, score) : NULL;
    snprintf(hyp, hn, "%s", h ? h : "(null)");
    return rv;
}
/* what a fresh decoder of the same configuration answers (once per process and configuration) */
static struct { int used; char key[64]; char hyp[256]; int32 score; } refs[24];
static void reference(const vd_cfg *cfg, int lang, char *hyp, size_t hn, int32 *score)
{
    char key[64]; int k; decoder_t *d;
    snprintf(key, sizeof(key), "%d/%s/%d", lang, cfg->cmn, cfg->compallsen);
    for (k = 0; k < 24 && refs[k].used; ++k) if (!strcmp(refs[k].key, key)) { snprintf(hyp, hn, "%s", refs[k].hyp); *score = refs[k].score; return; }
    d = vd_decoder_fresh(cfg);
    if (!d) { snprintf(hyp, hn, "(no reference)"); *score = 0; return; }
    probe(d, lang, hyp, hn, score);
    decoder_free(d);
    if (k < 24) { refs[k].used = 1; snprintf(refs[k].key, sizeof(refs[k].key), "%s", key); snprintf(refs[k].hyp, sizeof(refs[k].hyp), "%s", hyp); refs[k].score = *score; }
}

/* The piecewise construction the JavaScript binding uses (js/api.js + js/soundswallower.c): every model file is handed over as an
 * in-memory s3file_t and the decoder is assembled step by step from the public init functions.  Returns NULL if any step refuses. */
static decoder_t *piecewise_decoder(config_t *cf)
{
    decoder_t *d; acmod_t *am; s3file_t *f, *means = NULL, *vars = NULL, *sd = NULL, *mw = NULL, *dc = NULL, *fd = NULL; const char *p; int ok = 0;
    vh_ctx("decoder_create"); d = decoder_create(cf);
    if (!d) return NULL;
    cf = decoder_config(d);
    vh_ctx("decoder_init_cleanup"); if (decoder_init_cleanup(d) < 0) goto out;
    vh_ctx("decoder_init_fe"); if (!decoder_init_fe(d)) goto out;
    vh_ctx("decoder_init_feat_s3file");
    { s3file_t *lda = (p = config_str(cf, "lda")) ? s3file_map_file(p) : NULL; feat_t *fc = decoder_init_feat_s3file(d, lda); s3file_free(lda); if (!fc) goto out; }
    vh_ctx("decoder_init_acmod_pre"); if (!(am = decoder_init_acmod_pre(d))) goto out;
    vh_ctx("bin_mdef_read_s3file"); if (!(p = config_str(cf, "mdef")) || !(f = s3file_map_file(p))) goto out;
    am->mdef = bin_mdef_read_s3file(f, config_bool(cf, "cionly")); s3file_free(f); if (!am->mdef) goto out;
    vh_ctx("tmat_init_s3file"); if (!(p = config_str(cf, "tmat")) || !(f = s3file_map_file(p))) goto out;
    am->tmat = tmat_init_s3file(f, decoder_logmath(d), config_float(cf, "tmatfloor")); s3file_free(f); if (!am->tmat) goto out;
    vh_ctx("ptm_mgau_init_s3file");
    means = (p = config_str(cf, "mean")) ? s3file_map_file(p) : NULL; vars = (p = config_str(cf, "var")) ? s3file_map_file(p) : NULL;
    if ((p = config_str(cf, "sendump"))) sd = s3file_map_file(p);
    if (!sd && (p = config_str(cf, "mixw"))) mw = s3file_map_file(p);
    if (means && vars && (sd || mw)) am->mgau = ptm_mgau_init_s3file(am, means, vars, mw, sd);
    s3file_free(means); s3file_free(vars); s3file_free(sd); s3file_free(mw);
    if (!am->mgau) goto out;
    vh_ctx("decoder_init_acmod_post"); if (decoder_init_acmod_post(d) < 0) goto out;
    vh_ctx("decoder_init_dict_s3file");
    dc = (p = config_str(cf, "dict")) ? s3file_map_file(p) : NULL; fd = (p = config_str(cf, "fdict")) ? s3file_map_file(p) : NULL;
    ok = decoder_init_dict_s3file(d, dc, fd) != NULL;
    s3file_free(dc); s3file_free(fd);
    if (ok) vh_count("decoders_assembled_piecewise_from_memory_buffers", 1);
out:
    if (!ok) { vh_ctx("decoder_free"); decoder_free(d); return NULL; }
    return d;
}

static void run(long i, vh_rng *r)
{
    actx c; vd_cfg cfg; config_t *cf; int n, k, rc;
    memset(&c, 0, sizeof(c)); c.r = r; vh_sb_init(&c.log);
    c.lang = vh_chance(r, 0.15) ? VD_FR : VD_EN; c.hostile = vh_chance(r, 0.3);
    vd_cfg_default(&cfg, c.lang);
    if (vh_chance(r, 0.2)) cfg.compallsen = 1;
    if (vh_chance(r, 0.1)) cfg.cmn = VH_PICK(r, ((const char *[]){ "batch", "none" }));
    c.cfg = cfg; cf = vd_make_config(&cfg);
    vh_desc("%s cmn=%s compallsen=%d; %s history", c.lang == VD_FR ? "fr-fr" : "en-us", cfg.cmn, cfg.compallsen, c.hostile ? "hostile (out-of-order and degenerate calls injected)" : "protocol-conforming");
    if (vh_chance(r, 0.12)) { c.d = piecewise_decoder(cf); LOG(&c, "piecewise_init "); if (!c.d) vh_viol("piecewise_init_refused", "assembling the decoder step by step from in-memory model files failed for a configuration that decoder_init accepts"); }
    else if (vh_chance(r, 0.2)) { vh_ctx("decoder_create"); c.d = decoder_create(cf); if (c.d) { vh_ctx("decoder_reinit"); if (decoder_reinit(c.d, NULL) < 0) { decoder_free(c.d); c.d = NULL; } } LOG(&c, "create+reinit "); }
    else { vh_ctx("decoder_init"); c.d = decoder_init(cf); LOG(&c, "init "); }
    if (!c.d) { vh_inconc("decoder could not be created"); vh_sb_free(&c.log); return; }
    n = vh_chance(r, 0.15) ? vh_range(r, 60, 160) : vh_range(r, 5, 60);
    for (k = 0; k < n; ++k) {
        double u = vh_unit(r);
        ++c.nops;
        if (c.hostile && vh_chance(r, 0.12)) {
            /* out-of-order: pick a call that is wrong in the current state */
            int w = (int)vh_below(r, 4);
            if (w == 0) { if (c.st != ST_STARTED) op_process(&c); else op_start(&c); }
            else if (w == 1) { if (c.st != ST_STARTED) op_end(&c); else op_start(&c); }
            else if (w == 2) op_degenerate(&c);
            else op_query(&c);
            continue;
        }
        if (c.st == ST_STARTED) {
            if (u < 0.55) op_process(&c); else if (u < 0.85) op_query(&c); else if (u < 0.93 || c.off >= c.au.n) op_end(&c); else op_standalone(&c);
        } else {
            if (!c.have_gram) { if (u < 0.7) op_grammar(&c); else if (u < 0.8) op_query(&c); else if (u < 0.9) op_words(&c); else op_standalone(&c); }
            else if (u < 0.275) op_start(&c); else if (u < 0.29) op_reinit_config(&c); else if (u < 0.30) op_logfile(&c); else if (u < 0.32) op_mllr(&c); else if (u < 0.35) op_poll(&c); else if (u < 0.5) op_grammar(&c); else if (u < 0.6) op_words(&c); else if (u < 0.9) op_query(&c);
            else if (u < 0.93) { int rv; drop_iters(&c); vh_ctx("decoder_reinit"); rv = decoder_reinit(c.d, NULL); LOG(&c, "reinit(NULL)=%d ", rv); expect(&c, rv == 0, "reinit_null_fails", "decoder_reinit(d, NULL) returned %d", rv); c.have_gram = 0; c.st = ST_IDLE; vh_count("reinits", 1); }
            else op_standalone(&c);
        }
    }
    /* left usable? (70%): a protocol-conforming utterance must give what a fresh decoder of the same configuration gives */
    if (vh_chance(r, 0.7)) {
        char got[256], want[256]; int32 gs, ws; int rv;
        drop_iters(&c);
        if (c.st == ST_STARTED) { vh_ctx("decoder_end_utt"); decoder_end_utt(c.d); c.st = ST_ENDED; }
        vh_ctx("reference_decoder"); reference(&c.cfg, c.lang, want, sizeof(want), &ws);
        vh_ctx("probe_utterance"); rv = probe(c.d, c.lang, got, sizeof(got), &gs);
        expect(&c, !strcmp(got, want) && gs == ws, strcmp(got, want) ? "decoder_not_usable_after_history|hypothesis" : "decoder_not_usable_after_history|score", "after the history a conforming utterance gives \"%s\" score %d (calls returned %d), a fresh decoder of the same configuration gives \"%s\" score %d", got, gs, rv, want, ws);
        vh_count("usability_probes", 1); c.st = ST_ENDED; LOG(&c, "probe ");
    } else if (c.st == ST_STARTED) vh_count("decoders_freed_mid_utterance", 1);
    if (c.logging && vh_chance(r, 0.5)) op_logfile(&c);      /* otherwise the decoder is freed while it owns the log file */
    /* release every reference the history took, in a random order relative to the decoder */
    drop_iters(&c);
    if (vh_chance(r, 0.5)) { for (k = 0; k < c.nlat; ++k) { vh_ctx("lattice_free"); lattice_free(c.lat[k]); } c.nlat = 0; }
    if (vh_chance(r, 0.5)) { for (k = 0; k < c.nal; ++k) { vh_ctx("alignment_free"); alignment_free(c.al[k]); } c.nal = 0; }
    while (c.extra_refs > 0) { decoder_free(c.d); --c.extra_refs; }
    vh_ctx("decoder_free"); rc = decoder_free(c.d); LOG(&c, "decoder_free=%d ", rc);
    if (c.logging) { err_set_loglevel(ERR_FATAL); unlink(vh_path("%s/log%ld.txt", vh_tmpdir(), vh_case)); }
    expect(&c, rc == 0, "refcount_wrong_at_end", "the last decoder_free returned %d", rc);
    for (k = 0; k < c.nlat; ++k) { vh_ctx("lattice_free_after_decoder"); lattice_free(c.lat[k]); vh_count("lattices_freed_after_decoder", 1); }
    for (k = 0; k < c.nal; ++k) { vh_ctx("alignment_free_after_decoder"); alignment_free(c.al[k]); vh_count("alignments_freed_after_decoder", 1); }
    vd_audio_free(&c.au);
    vh_count("api_calls", c.nops); vh_count(c.hostile ? "hostile_histories" : "conforming_histories", 1); vh_count("utterances_started", c.utts);
    vh_nontrivial("%ld/%d", i, c.nops);
    if (i % 60 == 9) vh_sample("%s", c.log.s ? c.log.s : "");
    vh_ctx("leak_check");
    if (vh_have_lsan() && vh_leak_check()) vh_viol("LSAN", "memory still allocated after the last reference was released; history: %s", c.log.s ? c.log.s : "");
    vh_sb_free(&c.log);
}

static const vh_harness H = { "h_api", ncases, setup, run, NULL, 300 };
int main(int argc, char **argv) { return vh_main(argc, argv, &H); }
