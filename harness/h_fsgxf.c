/* h_fsgxf.c -- C13: grammar transformations and FSG files preserve the grammar.
 * VH_SOURCES: vfsa.c
 *
 * Ground truth is the GENERATOR's arc list.  Oracle: best (max-plus) weight of every word
 * string of length <= 5 over a 3-word alphabet, by naive Bellman-Ford relaxation (vfsa.c).
 *
 *   build (API or generated FSG text)  -> table == truth
 *   null closure                       -> table == truth; one-null-step table == truth
 *                                         (closure complete); second closure changes no arc
 *   add silence / filler self-loops    -> fillers-as-epsilon table == truth; strings with k
 *                                         fillers inserted weigh exactly k penalties less;
 *                                         adding again changes no arc
 *   add alternates                     -> table with w(n) mapped to w == truth
 *   write FSG text, read it back       -> same states/start/final, same labelled arcs,
 *                                         probabilities equal to the printed precision
 */
#include "vh.h"
#include "vfsa.h"
#include <math.h>
#include <soundswallower/fsg_model.h>
#include <soundswallower/logmath.h>
#include <soundswallower/s3file.h>
#include <soundswallower/glist.h>
#include <soundswallower/err.h>

#define NSYM 3
#define MAXLEN 5

static logmath_t *lmath;
static long ncases(int tier, long req) { if (req >= 0) return req; return tier ? 120000 : 4000; }
static void setup(void) { err_set_loglevel(ERR_FATAL); lmath = logmath_init(1.0001, 0, 1); }

static const char *alphabets[][NSYM] = {
    { "go", "ten", "meters" },
    { "Polish", "polish", "us" },          /* case variants are different words */
    { "a", "b", "c" },
    { "word's", "caf\xc3\xa9", "x(y)" },
};

typedef struct garc { int from, to, sym; double p; } garc;  /* sym -1 = epsilon */

static int32 plog(double p, float lw) { return (int32)(logmath_log(lmath, p) * lw); }

static double rand_prob(vh_rng *r)
{
    switch (vh_below(r, 10)) {
    case 0: return 1.0;
    case 1: return 0.5;
    case 2: return 0.1;
    case 3: return 1e-3;
    case 4: return 1e-5;
    case 5: return vh_chance(r, 0.5) ? 3e-7 : 1e-10;   /* below the 6-decimal printing precision */
    case 6: return 1e-30;
    default: return 0.001 + 0.999 * vh_unit(r);
    }
}

static int tables_equal(const int64_t *a, const int64_t *b, long n, long *where)
{
    long k;
    for (k = 0; k < n; ++k) if (a[k] != b[k]) { *where = k; return 0; }
    return 1;
}
static void fmt_string(const char *const *alpha, long idx, char *buf, size_t n)
{
    int str[16], len, k; size_t o = 0;
    vfsa_table_string(NSYM, idx, str, &len);
    buf[0] = 0;
    for (k = 0; k < len && o + 40 < n; ++k) o += (size_t)snprintf(buf + o, n - o, "%s%s", k ? " " : "", alpha[str[k]]);
    if (len == 0) snprintf(buf, n, "<empty>");
}

/* compute table for a library model: map labels of `alpha` to symbol ids of the model's vfsa */
static int model_table(fsg_model_t *fsg, const char *const *alpha, int flags, int eps_full, int64_t *out, vfsa *keep)
{
    vfsa f; int syms[NSYM], s, n;
    n = vfsa_from_model(fsg, &f, flags);
    if (n < 0) { vfsa_free(&f); return -1; }
    for (s = 0; s < NSYM; ++s) { syms[s] = vfsa_find_label(&f, alpha[s]); if (syms[s] < 0) syms[s] = -2; }
    vfsa_table(&f, NSYM, syms, MAXLEN, eps_full, out);
    if (keep) *keep = f; else vfsa_free(&f);
    return n;
}

static void check_table(const char *key, const char *what, const int64_t *truth, const int64_t *got, long tsz, const char *const *alpha)
{
    long w; char s[256];
    if (!tables_equal(truth, got, tsz, &w)) {
        fmt_string(alpha, w, s, sizeof(s));
        if ((truth[w] > VF_NEG) != (got[w] > VF_NEG))
            vh_viol(key, "%s: string \"%s\" %s by the generated grammar but %s afterwards", what, s, truth[w] > VF_NEG ? "accepted" : "rejected", got[w] > VF_NEG ? "accepted" : "rejected");
        else
            vh_viol(key, "%s: best weight of \"%s\" changed from %lld to %lld", what, s, (long long)truth[w], (long long)got[w]);
    }
}

/* which words count as fillers / alternates decides "which sequences of real words" a grammar accepts: exactly the words that were added as
 * such must carry the flag, however often the word table has grown since */
static void check_flags(fsg_model_t *fsg, const char *const *alpha, int sil_added, int alts_added, const char *when)
{
    int w, n = fsg_model_n_word(fsg);
    for (w = 0; w < n; ++w) {
        const char *nm = fsg_model_word_str(fsg, w); int want_f = sil_added && (!strcmp(nm, "<sil>") || !strcmp(nm, "+noise+")), want_a = 0, is_f = fsg_model_is_filler(fsg, w) ? 1 : 0, is_a = fsg_model_is_alt(fsg, w) ? 1 : 0;
        if (!strcmp(nm, vh_path("%s(2)", alpha[2]))) want_a = is_a;                       /* added in half of the cases, whenever its base is in the vocabulary: either */
        if (alts_added && !strcmp(nm, vh_path("%s(3)", alpha[0]))) want_a = is_a;
        if (alts_added && !strcmp(nm, vh_path("%s(2)", alpha[0]))) want_a = 1;
        if (is_f != want_f) { vh_viol(want_f ? "filler_flag_lost" : "real_word_flagged_as_filler", "%s: word %d '%s' of %d: filler flag %d, expected %d", when, w, nm, n, is_f, want_f); return; }
        if (is_a != want_a) { vh_viol(want_a ? "alternate_flag_lost" : "word_flagged_as_alternate", "%s: word %d '%s' of %d: alternate flag %d, expected %d", when, w, nm, n, is_a, want_a); return; }
    }
    vh_count("word_flag_checks", 1); vh_max("max_vocabulary", n);
}

static void run(long i, vh_rng *r)
{
    const char *const *alpha = alphabets[vh_below(r, 4)];
    int n_state = vh_chance(r, 0.1) ? 1 : vh_range(r, 2, 12);
    int start = (int)vh_below(r, (uint32_t)n_state), final = (int)vh_below(r, (uint32_t)n_state);
    int narcs = vh_range(r, 0, 4 * n_state + 4), k, from_text = vh_chance(r, 0.4);
    float lw = VH_PICK(r, ((float[]){ 1.0f, 1.0f, 6.5f, 9.5f, 7.5f, 2.0f }));
    garc *g = (garc *)calloc((size_t)narcs + 1, sizeof(garc));
    long tsz = vfsa_table_size(NSYM, MAXLEN);
    int64_t *truth = (int64_t *)malloc(sizeof(int64_t) * (size_t)tsz), *got = (int64_t *)malloc(sizeof(int64_t) * (size_t)tsz);
    vfsa gen; int gsyms[NSYM];
    fsg_model_t *fsg = NULL;
    long naccept = 0;
    double p_eps = vh_unit(r) * 0.6;
    int tiny_probs = 0, npad = 0, n_core, remap = 0, nfan = 0;

    int null_dense = vh_chance(r, 0.25), perm[16];
    if (null_dense) {
        /* dense null sub-graph: a direct null arc for most ordered pairs, each with its own probability,
         * so that chains beat direct arcs and the closure must keep improving existing arcs */
        n_state = vh_range(r, 3, 7); narcs = n_state * n_state + vh_range(r, 2, 8);
        free(g); g = (garc *)calloc((size_t)narcs + 1, sizeof(garc));
        start = (int)vh_below(r, (uint32_t)n_state); final = (int)vh_below(r, (uint32_t)n_state);
        if (vh_chance(r, 0.5)) {
            int a;
            null_dense = 2;
            for (a = 0; a < n_state; ++a) perm[a] = a;
            for (a = n_state - 1; a > 0; --a) { int b = (int)vh_below(r, (uint32_t)(a + 1)), t = perm[a]; perm[a] = perm[b]; perm[b] = t; }
            start = perm[0]; final = perm[n_state - 1];
        }
    }
    if (null_dense != 2 && vh_chance(r, 0.6)) { start = 0; final = n_state - 1; }
    /* sparse grammars: many more states than arcs (isolated, unreachable states take no room in FSG text) */
    n_core = n_state;
    if (i % 9 == 4) {
        n_state = n_core + (vh_chance(r, 0.5) ? vh_range(r, 30, 400) : vh_range(r, 400, 3000));
        /* every third sparse grammar scatters its connected states over a large range of state numbers */
        if (i % 27 == 13) { remap = 1; n_state = vh_chance(r, 0.5) ? vh_range(r, 13600, 40000) : vh_range(r, 300, 9000); }
        if (vh_chance(r, 0.3)) final = n_core + (int)vh_below(r, (uint32_t)(n_state - n_core));
        if (vh_chance(r, 0.1)) start = n_core + (int)vh_below(r, (uint32_t)(n_state - n_core));
        vh_count("sparse_grammars", 1); vh_max("max_states", n_state);
    }
    /* generator-side arcs */
    vfsa_init(&gen, n_state, start, final);
    for (k = 0; k < NSYM; ++k) gsyms[k] = vfsa_label(&gen, alpha[k]);
    for (k = 0; k < narcs; ++k) {
        g[k].from = (int)vh_below(r, (uint32_t)n_core);
        g[k].to = vh_chance(r, 0.15) ? g[k].from : (int)vh_below(r, (uint32_t)n_core);
        if (vh_chance(r, 0.5) && g[k].from + 1 < n_core) g[k].to = g[k].from + 1; /* keep the grammar productive */
        g[k].sym = vh_chance(r, p_eps) ? -1 : (int)vh_below(r, NSYM);
        g[k].p = rand_prob(r);
        if (k > 0 && vh_chance(r, 0.1)) { g[k] = g[vh_below(r, (uint32_t)k)]; g[k].p = rand_prob(r); } /* duplicate arc, other probability */
        if (null_dense == 2 && k < n_core * n_core) {
            /* structurally closed null DAG with stale weights: every pair i<j (in a hidden order) has a direct
             * null arc, the unit steps are likely and the long arcs unlikely, so the closure never adds an arc
             * and must iterate on improvements alone */
            int a = k / n_core, b = k % n_core;
            g[k].sym = -1;
            if (a < b) { g[k].from = perm[a]; g[k].to = perm[b]; g[k].p = (b == a + 1) ? (vh_chance(r, 0.7) ? 1.0 : 0.9) : VH_PICK(r, ((double[]){ 0.5, 0.1, 0.01, 0.3 })); }
            else { g[k].from = g[k].to = perm[0]; g[k].p = 1.0; } /* null self-loop: ignored by the API */
        } else if (null_dense && k < n_core * n_core) {
            g[k].from = k / n_core; g[k].to = k % n_core; g[k].sym = -1;
            g[k].p = vh_chance(r, 0.3) ? 1.0 : vh_chance(r, 0.5) ? 0.5 : 0.001 + 0.999 * vh_unit(r);
            if (g[k].from == g[k].to || vh_chance(r, 0.3)) { g[k].sym = (int)vh_below(r, NSYM); g[k].to = (int)vh_below(r, (uint32_t)n_core); if (vh_chance(r, 0.7)) { g[k].from = g[k].to = 0; g[k].p = 1.0; g[k].sym = -1; } }
        }
        if (g[k].p < 5e-7) tiny_probs = 1;
        vfsa_add(&gen, g[k].from, g[k].to, g[k].sym < 0 ? VF_EPS : gsyms[g[k].sym], (int64_t)plog(g[k].p, lw));
    }
    /* a larger vocabulary: arcs labelled with words outside the three-letter alphabet (the tables ignore strings that use them);
     * the model's word table and its filler / alternate flag vectors then grow several times */
    npad = vh_chance(r, 0.5) ? 0 : vh_range(r, 5, 75);
    if (npad) {
        g = (garc *)realloc(g, sizeof(garc) * (size_t)(narcs + npad + 1));
        for (k = 0; k < npad; ++k) { garc *a = &g[narcs + k]; a->from = (int)vh_below(r, (uint32_t)n_core); a->to = (int)vh_below(r, (uint32_t)n_core); a->sym = NSYM + k; a->p = rand_prob(r); if (a->p < 5e-7) a->p = 0.25; vfsa_add(&gen, a->from, a->to, vfsa_label(&gen, vh_path("pad%02d", k)), (int64_t)plog(a->p, lw)); }
        vh_count("grammars_with_large_vocabulary", 1);
    }
    if (remap) {
        /* the connected states get state numbers anywhere in the range, most of them multiples of 256 (numbers with zero bytes) */
        int map[16], q, t2, guard2 = 0;
        for (q = 0; q < n_core; ++q) {
            int ok2;
            do {
                map[q] = (n_state > 512 && vh_chance(r, 0.7)) ? 256 * (int)vh_below(r, (uint32_t)(n_state / 256)) : (int)vh_below(r, (uint32_t)n_state);
                ok2 = !(start >= n_core && map[q] == start) && !(final >= n_core && map[q] == final);
                for (t2 = 0; t2 < q; ++t2) if (map[t2] == map[q]) ok2 = 0;
            } while (!ok2 && ++guard2 < 10000);
        }
        for (k = 0; k < narcs + npad; ++k) { g[k].from = map[g[k].from]; g[k].to = map[g[k].to]; }
        if (start < n_core) start = map[start];
        if (final < n_core) final = map[final];
        if (n_state >= 13600 && vh_chance(r, 0.7)) {
            /* a hub: one connected state with arcs (null or word) to many further states all over the range, each of which leads
             * back into the connected part; the per-state arc tables then hold many destinations */
            int F = vh_range(r, 40, 120), hub = map[vh_below(r, (uint32_t)n_core)], f2;
            g = (garc *)realloc(g, sizeof(garc) * (size_t)(narcs + npad + 2 * F + 1));
            for (f2 = 0; f2 < F; ++f2) {
                garc *a = &g[narcs + npad + nfan]; int dest = vh_chance(r, 0.85) ? 256 * (int)vh_below(r, (uint32_t)(n_state / 256)) : (int)vh_below(r, (uint32_t)n_state);
                if (dest == hub) continue;
                a->from = hub; a->to = dest; a->sym = vh_chance(r, 0.5) ? -1 : (int)vh_below(r, NSYM); a->p = VH_PICK(r, ((double[]){ 0.9, 0.5, 0.1, 0.01, 0.3, 1.0 })); ++nfan;
                a = &g[narcs + npad + nfan]; a->from = dest; a->to = map[vh_below(r, (uint32_t)n_core)]; a->sym = vh_chance(r, 0.3) ? -1 : (int)vh_below(r, NSYM); a->p = VH_PICK(r, ((double[]){ 0.9, 0.5, 0.1, 0.3, 1.0 }));
                if (a->to == a->from) continue;
                ++nfan;
            }
            vh_count("grammars_with_a_hub_state", 1); vh_max("max_hub_fan_out", F);
        }
        vfsa_free(&gen); vfsa_init(&gen, n_state, start, final);
        for (k = 0; k < NSYM; ++k) gsyms[k] = vfsa_label(&gen, alpha[k]);
        for (k = 0; k < narcs + npad + nfan; ++k) vfsa_add(&gen, g[k].from, g[k].to, g[k].sym < 0 ? VF_EPS : g[k].sym >= NSYM ? vfsa_label(&gen, vh_path("pad%02d", g[k].sym - NSYM)) : gsyms[g[k].sym], (int64_t)plog(g[k].p, lw));
        vh_count("grammars_with_scattered_state_numbers", 1);
    }
    vfsa_table(&gen, NSYM, gsyms, MAXLEN, 1, truth);
    for (k = 0; k < tsz; ++k) if (truth[k] > VF_NEG) ++naccept;
    vh_desc("%d states start=%d final=%d, %d arcs (eps share %.2f), lw=%.1f, alphabet {%s,%s,%s}, built from %s; %ld of %ld strings accepted",
            n_state, start, final, narcs, p_eps, lw, alpha[0], alpha[1], alpha[2], from_text ? "generated FSG text" : "API calls", naccept, tsz);

    /* ---- build ---- */
    if (from_text) {
        vh_sb sb; s3file_t *s3;
        vh_sb_init(&sb);
        vh_sb_printf(&sb, "# generated\nFSG_BEGIN g%ld\n%s %d\n%s %d\n\n%s %d\n", i, vh_chance(r, 0.5) ? "NUM_STATES" : "N", n_state,
                     vh_chance(r, 0.5) ? "START_STATE" : "S", start, vh_chance(r, 0.5) ? "FINAL_STATE" : "F", final);
        for (k = 0; k < narcs + npad + nfan; ++k) {
            if (vh_chance(r, 0.1)) vh_sb_printf(&sb, "# comment line\n");
            vh_sb_printf(&sb, "%s%s %d %d %.17g %s\n", vh_chance(r, 0.2) ? "  " : "", vh_chance(r, 0.5) ? "TRANSITION" : "T", g[k].from, g[k].to, g[k].p, g[k].sym < 0 ? "" : g[k].sym >= NSYM ? vh_path("pad%02d", g[k].sym - NSYM) : alpha[g[k].sym]);
        }
        vh_sb_printf(&sb, "FSG_END\n");
        vh_ctx("fsg_model_read_s3file");
        s3 = s3file_init(sb.s, sb.n);
        fsg = fsg_model_read_s3file(s3, lmath, lw);
        s3file_free(s3);
        if (!fsg) { vh_viol("read_generated_text", "reader refused a well-formed generated FSG text:\n%.600s", sb.s); vh_sb_free(&sb); goto out; }
        vh_sb_free(&sb);
        /* the text carries the probabilities with 17 significant digits: same truth */
        vfsa_free(&gen); vfsa_init(&gen, n_state, start, final);
        for (k = 0; k < NSYM; ++k) gsyms[k] = vfsa_label(&gen, alpha[k]);
        for (k = 0; k < narcs + npad + nfan; ++k) vfsa_add(&gen, g[k].from, g[k].to, g[k].sym < 0 ? VF_EPS : g[k].sym >= NSYM ? vfsa_label(&gen, vh_path("pad%02d", g[k].sym - NSYM)) : gsyms[g[k].sym], (int64_t)plog(g[k].p, lw));
        vfsa_table(&gen, NSYM, gsyms, MAXLEN, 1, truth);
        vh_count("built_from_text", 1);
    } else {
        int wid[NSYM];
        vh_ctx("fsg_model_init");
        fsg = fsg_model_init(vh_path("g%ld", i), lmath, lw, n_state);
        fsg->start_state = start; fsg->final_state = final;
        for (k = 0; k < NSYM; ++k) wid[k] = fsg_model_word_add(fsg, alpha[k]);
        vh_ctx("fsg_model_trans_add");
        for (k = 0; k < narcs + npad + nfan; ++k) {
            if (g[k].sym < 0) fsg_model_null_trans_add(fsg, g[k].from, g[k].to, plog(g[k].p, lw));
            else fsg_model_trans_add(fsg, g[k].from, g[k].to, plog(g[k].p, lw), g[k].sym >= NSYM ? fsg_model_word_add(fsg, vh_path("pad%02d", g[k].sym - NSYM)) : wid[g[k].sym]);
        }
        vh_count("built_from_api", 1);
    }
    if (model_table(fsg, alpha, 0, 1, got, NULL) < 0) { vh_viol("arciter_wrong_state", "fsg_model_arcs(i) returned an arc of another state"); goto out; }
    if (from_text) {
        /* how the reader rounds a decimal probability is its own business (float or double parsing):
         * demand the same language and weights within 16*(lw+1) log units, then continue with the
         * model's own weights as the truth for the exact comparisons below */
        long q;
        for (q = 0; q < tsz; ++q) {
            if ((truth[q] > VF_NEG) != (got[q] > VF_NEG) || (truth[q] > VF_NEG && llabs((long long)(truth[q] - got[q])) > (long long)(16 * (lw + 1)))) {
                check_table("build_changed_language", "after reading generated FSG text", truth, got, tsz, alpha);
                break;
            }
        }
        memcpy(truth, got, sizeof(int64_t) * (size_t)tsz);
    } else
        check_table("build_changed_language", "after construction", truth, got, tsz, alpha);

    /* ---- closure ---- */
    {
        vfsa c1, c2; char why[300]; glist_t nulls;
        vh_ctx("fsg_model_null_trans_closure");
        nulls = fsg_model_null_trans_closure(fsg, NULL); glist_free(nulls);
        model_table(fsg, alpha, 0, 1, got, &c1);
        check_table("closure_changed_language", "after null closure", truth, got, tsz, alpha);
        model_table(fsg, alpha, 0, 0, got, NULL);
        check_table("closure_incomplete", "after null closure, following at most one null arc between words", truth, got, tsz, alpha);
        nulls = fsg_model_null_trans_closure(fsg, NULL); glist_free(nulls);
        model_table(fsg, alpha, 0, 1, got, &c2);
        if (!vfsa_same_arcs(&c1, &c2, 1, why, sizeof(why))) vh_viol("closure_not_idempotent", "second closure changed the arcs: %s", why);
        vh_count("closures_checked", 1);
        vh_max("max_arcs_after_closure", c2.narcs);
        vfsa_free(&c1); vfsa_free(&c2);
    }

    /* ---- round trip (on the closed grammar; the reader closes what it reads) ---- */
    {
        char *text = NULL; size_t tlen = 0; FILE *fp = open_memstream(&text, &tlen);
        fsg_model_t *back; s3file_t *s3;
        vh_ctx("fsg_model_write");
        fsg_model_write(fsg, fp);
        fclose(fp);
        if (vh_dump_dir) vh_write_file(vh_path("%s/written.fsg", vh_dump_dir), text, tlen);
        vh_ctx("fsg_model_read_s3file(roundtrip)");
        s3 = s3file_init(text, tlen);
        back = fsg_model_read_s3file(s3, lmath, lw);
        s3file_free(s3);
        if (!back) {
            vh_viol(tiny_probs ? "roundtrip_unreadable_tiny_prob" : "roundtrip_unreadable", "the reader refuses what the writer wrote (%d arcs, smallest generated probability %s 5e-7):\n%.500s", narcs, tiny_probs ? "<" : ">=", text);
        } else {
            vfsa a, b; char why[300];
            vfsa_from_model(fsg, &a, 0); vfsa_from_model(back, &b, 0);
            if (fsg_model_n_state(back) != n_state || fsg_model_start_state(back) != start || fsg_model_final_state(back) != final)
                vh_viol("roundtrip_header", "states/start/final %d/%d/%d became %d/%d/%d", n_state, start, final, fsg_model_n_state(back), fsg_model_start_state(back), fsg_model_final_state(back));
            else if (!vfsa_same_arcs(&a, &b, 0, why, sizeof(why))) vh_viol("roundtrip_arcs", "labelled arc set changed by write+read: %s", why);
            else {
                /* probabilities equal to the printed precision (6 decimals), plus the log quantisation */
                vfsa sa = a, sb2 = b; int q; (void)sa; (void)sb2;
                /* both arc arrays are in model order; compare through sorted named order */
                for (q = 0; q < a.narcs; ++q) {
                    int q2, found = 0;
                    for (q2 = 0; q2 < b.narcs; ++q2) {
                        if (a.arcs[q].from == b.arcs[q2].from && a.arcs[q].to == b.arcs[q2].to &&
                            ((a.arcs[q].label == VF_EPS && b.arcs[q2].label == VF_EPS) || (a.arcs[q].label != VF_EPS && b.arcs[q2].label != VF_EPS && !strcmp(a.labels[a.arcs[q].label], b.labels[b.arcs[q2].label])))) {
                            double p0 = exp((double)a.arcs[q].w / lw * log(1.0001)), p1 = exp((double)b.arcs[q2].w / lw * log(1.0001));
                            /* log-domain slack: one unit of quantisation plus the lw truncation per arc; a null arc
                             * may be the closure's product of up to n_state re-read arcs */
                            long long tol = (long long)(lw + 3.0) * (a.arcs[q].label == VF_EPS ? n_state : 1);
                            found = 1;
                            if (fabs(p0 - p1) > 0.5e-6 && llabs((long long)(a.arcs[q].w - b.arcs[q2].w)) > tol)
                                vh_viol("roundtrip_probability", "arc %d->%d: probability %.9g became %.9g (log %lld -> %lld, lw %.1f)", a.arcs[q].from, a.arcs[q].to, p0, p1, (long long)a.arcs[q].w, (long long)b.arcs[q2].w, lw);
                            break;
                        }
                    }
                    if (!found) vh_viol("roundtrip_arcs", "arc lost in round trip");
                }
                vh_count("roundtrips_compared", 1);
                vh_count("roundtrip_arcs_compared", a.narcs);
            }
            vfsa_free(&a); vfsa_free(&b);
            fsg_model_free(back);
        }
        free(text);
    }

    /* ---- silence / fillers and alternates, in random order ---- */
    {
        int order = (int)vh_below(r, 2), step;
        double silprob = VH_PICK(r, ((double[]){ 0.005, 0.1, 1e-8, 1.0 })), fillprob = VH_PICK(r, ((double[]){ 1e-8, 0.02 }));
        int have_alt_base = fsg_model_word_id(fsg, alpha[0]) >= 0, sil_added = 0, alts_added = 0;
        for (step = 0; step < 2; ++step) {
            if ((step == 0) == (order == 0)) {
                vfsa s1, s2; char why[300]; int n1, n2;
                vh_ctx("fsg_model_add_silence");
                n1 = fsg_model_add_silence(fsg, "<sil>", -1, (float)silprob);
                n2 = fsg_model_add_silence(fsg, "+noise+", -1, (float)fillprob);
                if (n1 != n_state || n2 != n_state) vh_viol("silence_count", "add_silence reported %d/%d transitions for %d states", n1, n2, n_state);
                model_table(fsg, alpha, VF_FILLER_EPS | VF_MAP_ALT, 1, got, NULL);
                check_table("silence_changed_language", "after adding silence/filler loops (fillers removed)", truth, got, tsz, alpha);
                /* explicit filler insertions: k fillers cost exactly k penalties */
                {
                    vfsa f; int syms4[NSYM + 1], s, ins;
                    int64_t pen = (int64_t)plog((double)(float)silprob, lw);
                    vfsa_from_model(fsg, &f, VF_MAP_ALT);
                    for (s = 0; s < NSYM; ++s) { syms4[s] = vfsa_find_label(&f, alpha[s]); if (syms4[s] < 0) syms4[s] = -2; }
                    syms4[NSYM] = vfsa_find_label(&f, "<sil>");
                    for (ins = 0; ins < 12; ++ins) {
                        /* pick an accepted string, insert k fillers */
                        long idx = (long)vh_below(r, (uint32_t)tsz); int str[16], len, k2, nk = vh_range(r, 1, 3), labels[24], m = 0, pos[3];
                        int64_t best; int64_t *one; int syms_one[1]; (void)syms_one; (void)one;
                        if (truth[idx] <= VF_NEG) continue;
                        vfsa_table_string(NSYM, idx, str, &len);
                        for (k2 = 0; k2 < nk; ++k2) pos[k2] = vh_range(r, 0, len);
                        for (k2 = 0; k2 <= len; ++k2) { int z; for (z = 0; z < nk; ++z) if (pos[z] == k2) labels[m++] = syms4[NSYM]; if (k2 < len) labels[m++] = syms4[str[k2]]; }
                        /* weight of that exact label sequence: run the table machinery on a 1-string basis */
                        {
                            int64_t *v = (int64_t *)malloc(sizeof(int64_t) * (size_t)f.n_state), *nv = (int64_t *)malloc(sizeof(int64_t) * (size_t)f.n_state); int a, st, ch, t;
                            for (st = 0; st < f.n_state; ++st) v[st] = VF_NEG;
                            v[f.start] = 0;
                            for (t = 0; t <= m; ++t) {
                                do { ch = 0; for (a = 0; a < f.narcs; ++a) if (f.arcs[a].label == VF_EPS && v[f.arcs[a].from] > VF_NEG && v[f.arcs[a].from] + f.arcs[a].w > v[f.arcs[a].to]) { v[f.arcs[a].to] = v[f.arcs[a].from] + f.arcs[a].w; ch = 1; } } while (ch);
                                if (t == m) break;
                                for (st = 0; st < f.n_state; ++st) nv[st] = VF_NEG;
                                for (a = 0; a < f.narcs; ++a) if (f.arcs[a].label == labels[t] && labels[t] >= 0 && v[f.arcs[a].from] > VF_NEG && v[f.arcs[a].from] + f.arcs[a].w > nv[f.arcs[a].to]) nv[f.arcs[a].to] = v[f.arcs[a].from] + f.arcs[a].w;
                                memcpy(v, nv, sizeof(int64_t) * (size_t)f.n_state);
                            }
                            best = v[f.final];
                            free(v); free(nv);
                        }
                        if (best != truth[idx] + nk * pen) {
                            char sbuf[200]; fmt_string(alpha, idx, sbuf, sizeof(sbuf));
                            vh_viol("filler_penalty", "\"%s\" with %d <sil> inserted weighs %lld, expected %lld + %d * %lld", sbuf, nk, (long long)best, (long long)truth[idx], nk, (long long)pen);
                        }
                        vh_count("filler_insertions_checked", 1);
                    }
                    vfsa_free(&f);
                }
                vfsa_from_model(fsg, &s1, 0);
                fsg_model_add_silence(fsg, "<sil>", -1, (float)silprob);
                fsg_model_add_silence(fsg, "+noise+", -1, (float)fillprob);
                vfsa_from_model(fsg, &s2, 0);
                if (!vfsa_same_arcs(&s1, &s2, 1, why, sizeof(why))) vh_viol("silence_twice", "adding silence a second time changed the arcs: %s", why);
                vfsa_free(&s1); vfsa_free(&s2);
                sil_added = 1;
                check_flags(fsg, alpha, sil_added, alts_added, "after adding silence and filler");
                vh_count("silence_checked", 1);
            } else {
                int nadd;
                vh_ctx("fsg_model_add_alt");
                nadd = fsg_model_add_alt(fsg, alpha[0], vh_path("%s(2)", alpha[0]));
                if (have_alt_base && nadd < 0) vh_viol("alt_refused", "add_alt refused a base word that is in the vocabulary");
                if (nadd >= 0) fsg_model_add_alt(fsg, alpha[0], vh_path("%s(3)", alpha[0]));
                if (fsg_model_word_id(fsg, alpha[2]) >= 0 && vh_chance(r, 0.5)) fsg_model_add_alt(fsg, alpha[2], vh_path("%s(2)", alpha[2]));
                if (nadd >= 0) alts_added = 1;
                check_flags(fsg, alpha, sil_added, alts_added, "after adding alternates");
                model_table(fsg, alpha, VF_FILLER_EPS | VF_MAP_ALT, 1, got, NULL);
                check_table("alt_changed_language", "after adding alternate-pronunciation arcs (w(n) read as w)", truth, got, tsz, alpha);
                if (nadd > 0) {
                    /* the alternates themselves must be usable: with ONLY the alternates kept for word 0 the table is the same */
                    vfsa f; int syms[NSYM], s;
                    vfsa_from_model(fsg, &f, VF_FILLER_EPS);
                    for (s = 0; s < NSYM; ++s) { syms[s] = vfsa_find_label(&f, s == 0 ? vh_path("%s(2)", alpha[0]) : alpha[s]); if (syms[s] < 0) syms[s] = -2; }
                    vfsa_table(&f, NSYM, syms, MAXLEN, 1, got);
                    check_table("alt_arcs_incomplete", "using the alternate w(2) in place of w everywhere", truth, got, tsz, alpha);
                    vfsa_free(&f);
                    vh_count("alt_checked", 1);
                }
            }
        }
    }
    if (null_dense) vh_count(null_dense == 2 ? "closed_stale_null_grammars" : "null_dense_grammars", 1);
    if (naccept > 1) vh_nontrivial("%016llx", (unsigned long long)vfsa_arcs_hash(&gen, 1));
    if (i % 400 == 11) vh_sample("case %ld: %d states, %d generated arcs, lw %.1f, %s: %ld/%ld strings accepted; closure, round trip, silence x2, alternates all compared with the generator-side table", i, n_state, narcs, lw, from_text ? "from FSG text" : "via API", naccept, tsz);
out:
    if (fsg) fsg_model_free(fsg);
    vfsa_free(&gen);
    free(g); free(truth); free(got);
    if (vh_have_lsan() && (i % 500) == 499 && vh_leak_check()) vh_viol("LSAN", "leak after fsg_model_free");
}

static const vh_harness H = { "h_fsgxf", ncases, setup, run, NULL, 120 };
int main(int argc, char **argv) { return vh_main(argc, argv, &H); }
