/* h_fuzz.c -- C10: untrusted grammar, dictionary, configuration and text inputs are handled safely.
 * VH_SOURCES: vfsa.c vdec.c
 *
 * A deterministic structure-aware mutator produces byte strings for seven targets; each input is
 * given to the real entry point, whatever comes back is USED (iterated, written, compiled, loaded
 * into a live decoder, decoded for a few frames) and freed.  The oracle is the process fate: a
 * sanitizer report, a signal, an assertion, exit() or a watchdog expiry inside a case is a
 * violation attributed to (kind, innermost library function, target).
 *
 *   T1 jsgf    jsgf_parse_string -> every rule jsgf_build_fsg(+_raw) -> arcs; decoder_set_jsgf_string
 *   T2 fsg     fsg_model_read_s3file (exact-size buffer) -> arcs, write, add_silence/alt, decoder_set_fsg + decode
 *   T3 dict    dict_init_s3file (dictionary and filler dictionary) -> dict2pid_build -> lookups
 *   T4 config  config_parse_json (JSON and "key: value") -> typed getters -> config_serialize_json -> reparse
 *   T5 align   decoder_set_align_text -> decode
 *   T6 addword decoder_add_word(word, phones) -> lookup
 *   T7 cmn     decoder_set_cmn -> decoder_get_cmn -> decode
 */
#include "vh.h"
#include "vfsa.h"
#include "vdec.h"
#include <ctype.h>
#include <soundswallower/jsgf.h>
#include <soundswallower/fsg_model.h>
#include <soundswallower/s3file.h>
#include <soundswallower/dict.h>
#include <soundswallower/dict2pid.h>
#include <soundswallower/err.h>
#include <soundswallower/ckd_alloc.h>
#include <soundswallower/glist.h>
#include <soundswallower/fe.h>
#include <soundswallower/feat.h>

enum { T_JSGF, T_FSG, T_DICT, T_CONFIG, T_ALIGN, T_ADDWORD, T_CMN, NT };
static const char *tname[NT] = { "jsgf", "fsg", "dict", "config", "align_text", "add_word", "set_cmn" };

typedef struct seed { char *s; size_t n; } seed;
static seed seeds[NT][64]; static int nseeds[NT];
static void add_seed(int t, const char *s, size_t n) { if (nseeds[t] < 64) { seeds[t][nseeds[t]].s = (char *)malloc(n + 1); memcpy(seeds[t][nseeds[t]].s, s, n); seeds[t][nseeds[t]].s[n] = 0; seeds[t][nseeds[t]].n = n; ++nseeds[t]; } }
static void add_seed_str(int t, const char *s) { add_seed(t, s, strlen(s)); }
static void add_seed_file(int t, const char *path, size_t maxn)
{
    size_t n = 0; char *b = (char *)vh_read_file(path, &n);
    if (b) { add_seed(t, b, n > maxn ? maxn : n); free(b); }
}

static const char *dict_tok[NT][48] = {
    { "#JSGF V1.0;", "grammar g;", "public", "<a>", "<b>", "=", ";", "|", "(", ")", "[", "]", "*", "+", "{tag}", "/2/", "/0.5/", "/1e-3/", "/0/", "/5/", "<NULL>", "<VOID>", "import <x.y>;", "//c\n", "/*", "*/", "\"q s\"", "go", "forward", "\xef\xbb\xbf", "<a.b>", "<g.a>", "{", "}", "\\", "/", "<>", "< >", "%s", "<%n>", "%5000d", "<g00000>", "<g00001>", "<g00002>", "<g.g00001>", NULL },
    { "FSG_BEGIN", "FSG_END", "NUM_STATES", "START_STATE", "FINAL_STATE", "TRANSITION", "N", "S", "F", "T", "#", "0", "1", "2", "0.5", "1.0", "1e-10", "go", "forward", "\n", " ", "\t", "-1", "2147483648", "4294967295", "99999999999", "0.0", "1.5", "nan", "inf", "1e400", "FSG_BEGIN x\n", "%s", "%n", "%s%s%s%s", NULL },
    { "go G OW\n", "a AH\n", "a(2) EY\n", "<sil> SIL\n", "##", ";;", "(", ")", "(2)", " ", "\t", "\n", "G", "OW", "QQ", "+NSN+", "SIL", "x(", "x()", "x(2", "(2)", "\r\n", "%s", "%n", "w%sx", NULL },
    { "{", "}", "\"", ":", ",", "true", "false", "null", "samprate", "beam", "hmm", "loglevel", "INFO", "16000", "1e-48", "-1", "\\n", "\\u0041", "\\ud800", "\\", "[", "]", "1e999", "-0", "0x10", "nfft", "dict", "cmn", "lw", " ", "\n", "\"beam\": 1e-48", "beam: 1e-20", "remove_noise: yes", "compallsen", "yes", "no", "\\b", "\x08", "\\b\\b\\b\\b\\b\\b\\b\\b", "\x08\x08\x08\x08\x08\x08\x08\x08", "\\f\\f\\f\\f\\f\\f", "\\u0001\\u0001\\u0001\\u0001", "warp_params", "nfilt", "wlen", NULL },
    { "go", "forward", "ten", "meters", " ", "\t", "\n", "\r", "a", "the(2)", "<sil>", "[NOISE]", "(NULL)", "zzzzqq", "", "%s", "%n", "100%", "%s%s%s%s%s%s", "%999999d", "x%hhn", NULL },
    { "go", "x", "x(2)", "G OW", "AH", "F AO R W ER D", " ", "  ", "\t", "QQ", "SIL", "+NSN+", "(", ")", "", "B D", "%s", "%n", "Q%sQ", NULL },
    { "40,3,-1", ",", "1e308", "-1e308", "nan", "inf", "0", "1", " ", "40", "3", ",,,,,,,,,,,,,,,,,,,,,,,,,,,,,,,,,,,,,", "-", "e", ".", "0x1p3", "%s", "%n", NULL },
};

static long ncases(int tier, long req) { if (req >= 0) return req; return tier ? 400000 : 24000; }

static void setup(void)
{
    char *p;
    /* messages at the library's default level are formatted and read by a sink: texts taken from the input reach the log */
    vd_loglevel = "WARN"; vh_log_sink(ERR_WARN);
    vd_init();
    add_seed_file(T_JSGF, vh_path("%s/tests/data/goforward.gram", vh_repo), 1 << 20);
    add_seed_file(T_JSGF, vh_path("%s/tests/data/pizza.gram", vh_repo), 1 << 20);
    add_seed_file(T_JSGF, vh_path("%s/tests/data/goforward_fr.gram", vh_repo), 1 << 20);
    add_seed_file(T_JSGF, vh_path("%s/tests/data/defective.gram", vh_repo), 1 << 20);
    add_seed_str(T_JSGF, "#JSGF V1.0;\ngrammar g;\npublic <a> = go [ forward | backward ] ( ten | two )* meters+ {tag} ;\n");
    add_seed_str(T_JSGF, "#JSGF V1.0 UTF-8 en;\ngrammar rec;\npublic <s> = /0.3/ go <t> | /0.7/ stop;\n<t> = forward <s> | <NULL>;\n");
    add_seed_str(T_JSGF, "#JSGF V1.0;\ngrammar w;\npublic <a> = go /5/ (forward);\n");
    /* user rules named like the names the parser invents for groups, optionals and repetitions (<gNNNNN>, N = number of rules so far) */
    add_seed_str(T_JSGF, "#JSGF V1.0;\ngrammar g;\n<g00001> = go;\npublic <top> = ( forward | backward ) [ ten ] meters* <g00001>;\n");
    add_seed_str(T_JSGF, "#JSGF V1.0;\ngrammar g;\n<g00000> = go;\n<g00002> = ten;\n<g00003> = two;\npublic <top> = <g00000> ( forward | <g00002> ) [ <g00003> ] meters+;\n");
    add_seed_str(T_JSGF, "#JSGF V1.0;\ngrammar q;\nimport <other.rule>;\npublic <a> = \"go forward\" <other.rule> // c\n /* c2 */ ;\n");
    add_seed_file(T_FSG, vh_path("%s/tests/data/goforward.fsg", vh_repo), 1 << 20);
    add_seed_file(T_FSG, vh_path("%s/tests/data/goforward2.fsg", vh_repo), 1 << 20);
    add_seed_file(T_FSG, vh_path("%s/tests/data/goforward3.fsg", vh_repo), 1 << 20);
    add_seed_str(T_FSG, "FSG_BEGIN t\nN 3\nS 0\nF 2\nT 0 1 0.5 go\nT 1 2 1.0 ten\nT 0 2 0.1\nT 1 1 0.2 go\nFSG_END\n");
    add_seed_str(T_FSG, "FSG_BEGIN u\nNUM_STATES 2\nSTART_STATE 0\nFINAL_STATE 1\nTRANSITION 0 1 1.0 nosuchwordzz\nFSG_END\n");
    add_seed_file(T_DICT, vh_path("%s/tests/data/turtle.dic", vh_repo), 1 << 20);
    add_seed_file(T_DICT, vh_path("%s/tests/data/defective.dic", vh_repo), 1 << 20);
    add_seed_file(T_DICT, vh_path("%s/model/en-us/dict.txt", vh_repo), 6000);
    add_seed_file(T_DICT, vh_path("%s/model/en-us/noisedict.txt", vh_repo), 6000);
    add_seed_str(T_DICT, "go G OW\ngo(2) G AO\nlong AA AE AH AO AW AY B CH D DH EH ER EY F G HH IH IY JH K L M N NG OW OY P R S SH T TH UH UW V W Y Z ZH AA AE AH AO AW AY B CH D DH EH ER EY F G HH\n");
    add_seed_file(T_CONFIG, vh_path("%s/model/en-us/feat_params.json", vh_repo), 1 << 20);
    add_seed_str(T_CONFIG, "{\"samprate\": 16000, \"beam\": 1e-48, \"hmm\": \"/repo/model/en-us\", \"loglevel\": \"FATAL\", \"remove_noise\": true, \"cmn\": \"live\"}");
    add_seed_str(T_CONFIG, "samprate: 8000, frate: 100\nbeam: 1e-20 loglevel: \"ERROR\" dict: \"a b\\n\\u00e9\"");
    /* signal-processing parameters: an accepted configuration is handed to fe_init / feat_init and a little audio is run through */
    add_seed_str(T_CONFIG, "{\"samprate\": 8000, \"nfilt\": 31, \"lowerf\": 200, \"upperf\": 3500, \"wlen\": 0.0256, \"frate\": 100, \"nfft\": 256, \"warp_type\": \"affine\", \"warp_params\": \"1.1 0.05\", \"transform\": \"dct\", \"lifter\": 22, \"feat\": \"1s_c_d_dd\", \"ceplen\": 13, \"svspec\": \"0-12/13-25/26-38\", \"cmn\": \"live\", \"cmninit\": \"40,3,-1\", \"dither\": true, \"seed\": 3}");
    add_seed_str(T_CONFIG, "{\"warp_type\": \"piecewise_linear\", \"warp_params\": \"0.9 3000\", \"nfilt\": 40, \"upperf\": 6800, \"ncep\": 13, \"transform\": \"legacy\", \"remove_dc\": true, \"remove_noise\": false, \"unit_area\": false, \"round_filters\": true, \"doublebw\": true, \"alpha\": 0.97, \"input_endian\": \"big\"}");
    add_seed_str(T_CONFIG, "warp_type: inverse_linear warp_params: \"1.05\" feat: s2_4x varnorm: yes cmn: batch logspec: yes smoothspec: no frate: 50 wlen: 0.04 nfft: 1024 transform: htk");
    add_seed_str(T_CONFIG, "{\"a\":{\"b\":[1,2,{\"c\":null}]},\"lw\":6.5,\"fsg\":\"x\\by\"}");
    /* every escape class, repeated, in values of real string parameters: a size/serialise disagreement on one class adds up */
    add_seed_str(T_CONFIG, "{\"hmm\": \"\\b\\b\\b\\b\\b\\b\\b\\b\\b\\b\\b\\b\", \"dict\": \"\\f\\f\\f\\f\\f\\f\\f\\f\\f\\f\", \"fsg\": \"\\n\\n\\n\\n\\n\\n\\n\\n\\n\\n\", \"jsgf\": \"\\r\\r\\r\\r\\r\\r\\r\\r\\r\\t\\t\\t\\t\\t\\t\\t\\t\\t\", \"mdef\": \"\\\"\\\"\\\"\\\"\\\"\\\"\\\"\\\"\\\\\\\\\\\\\\\\\\\\\\\\\\\\\", \"mean\": \"\\/\\/\\/\\/\\/\\/\\/\\/\", \"var\": \"\\u0001\\u0002\\u001f\\u007f\\u0001\\u0001\\u0001\\u0001\\u0001\\u0001\", \"tmat\": \"\\u00e9\\u20ac\\ud83d\\ude00\\u00e9\\u00e9\\u00e9\\u00e9\"}");
    add_seed_str(T_CONFIG, "hmm: \"\x08\x08\x08\x08\x08\x08\x08\x08\x08\x08\x08\x08\" dict: \"\x0c\x0c\x0c\x0c\x0c\x0c\x0c\x0c\x01\x01\x01\x01\x01\x01\x1f\x1f\x1f\x1f\x7f\x7f\x7f\x7f\"");
    add_seed_str(T_ALIGN, "go forward ten meters"); add_seed_str(T_ALIGN, "  go\tforward \n ten  meters  "); add_seed_str(T_ALIGN, "a"); add_seed_str(T_ALIGN, "");
    add_seed_str(T_ADDWORD, "newword\nN UW W ER D"); add_seed_str(T_ADDWORD, "x(2)\nEH K S"); add_seed_str(T_ADDWORD, "b\nB"); add_seed_str(T_ADDWORD, "go\nG OW");
    add_seed_str(T_CMN, "40,3,-1"); add_seed_str(T_CMN, "40.5,3,-1,0,0,0,0,0,0,0,0,0,0"); add_seed_str(T_CMN, ""); add_seed_str(T_CMN, "1,2,3,4,5,6,7,8,9,10,11,12,13,14,15,16,17,18,19,20");
    /* committed regression corpus: every input that ever produced a finding */
    p = vh_path("/verif/corpus");
    { int t; for (t = 0; t < NT; ++t) { int k; for (k = 0; k < 40; ++k) add_seed_file(t, vh_path("%s/%s/%02d", p, tname[t], k), 1 << 20); } }
}

/* ---------------- mutator ---------------- */
static void mutate(vh_rng *r, int t, vh_sb *out)
{
    const seed *s = &seeds[t][vh_below(r, (uint32_t)nseeds[t])]; int nm, k, ntok = 0;
    while (dict_tok[t][ntok]) ++ntok;
    vh_sb_reset(out); vh_sb_write(out, s->s, s->n);
    if (vh_chance(r, 0.03)) return;                       /* the seed itself */
    if (t == T_CONFIG && vh_chance(r, 0.2)) {
        /* a well-formed configuration whose signal-processing numbers sit on the boundaries of the relations between them
         * (window length x sample rate against the FFT size and the frame shift, cepstra against filters, filter edges against
         * the Nyquist frequency): the values individually look harmless */
        static const int rates[] = { 8000, 11025, 16000, 16000, 22050, 44100, 48000 }; static const double dl[] = { -1, -0.6, -0.5, -0.4, 0, 0.4, 0.5, 0.6, 1 };
        int sr = VH_PICK(r, rates), fftk = vh_range(r, 6, 12), nfft = vh_chance(r, 0.5) ? 0 : (1 << fftk), frate = VH_PICK(r, ((int[]){ 100, 50, 200, 1, sr, sr / 2, sr / 2 + 1, 105, 32767 }));
        int nfilt = VH_PICK(r, ((int[]){ 1, 2, 13, 20, 40, 255, 256 })), ncep = vh_chance(r, 0.5) ? 13 : nfilt + vh_range(r, -1, 1);
        double wl = ((double)(vh_chance(r, 0.6) ? (1 << fftk) : vh_chance(r, 0.5) ? (sr / (frate > 0 ? frate : 1)) : 410) + VH_PICK(r, dl)) / sr;
        double upper = vh_chance(r, 0.5) ? sr / 2.0 + VH_PICK(r, dl) * 2 : 6855.4976, lower = vh_chance(r, 0.7) ? 133.33334 : vh_chance(r, 0.5) ? 0.0 : upper + VH_PICK(r, dl);
        vh_sb_reset(out);
        vh_sb_printf(out, "{\"samprate\": %d, \"wlen\": %.9g, \"frate\": %d, \"nfft\": %d, \"nfilt\": %d, \"ncep\": %d, \"upperf\": %.9g, \"lowerf\": %.9g", sr, wl, frate, nfft, nfilt, ncep, upper, lower);
        if (vh_chance(r, 0.3)) vh_sb_printf(out, ", \"transform\": \"%s\"", VH_PICK(r, ((const char *[]){ "dct", "legacy", "htk" })));
        if (vh_chance(r, 0.3)) vh_sb_printf(out, ", \"doublebw\": true");
        if (vh_chance(r, 0.3)) vh_sb_printf(out, ", \"round_filters\": %s", vh_chance(r, 0.5) ? "true" : "false");
        if (vh_chance(r, 0.2)) vh_sb_printf(out, ", \"logspec\": true");
        if (vh_chance(r, 0.2)) vh_sb_printf(out, ", \"remove_noise\": false");
        if (vh_chance(r, 0.2)) vh_sb_printf(out, ", \"feat\": \"%s\", \"ceplen\": %d", VH_PICK(r, ((const char *[]){ "1s_c_d_dd", "s2_4x", "cep", "1s_3c", "13,13:2", "1s_c_d_ld_dd" })), vh_chance(r, 0.5) ? 13 : ncep);
        vh_sb_printf(out, "}");
        return;
    }
    if ((t == T_JSGF || t == T_FSG || t == T_ALIGN) && vh_chance(r, 0.08)) {
        /* a valid grammar over a large vocabulary (tens to a few hundred dictionary words, many of them with alternate
         * pronunciations): the word tables and per-word flag vectors of the grammar are re-allocated several times, and the
         * vocabulary size sits near the sizes at which they grow */
        static const char **altbase; static int naltbase; const vd_lex *lx = vd_lexicon(VD_EN);
        int V = vh_chance(r, 0.6) ? 32 * vh_range(r, 1, 7) - vh_range(r, 0, 7) : vh_range(r, 5, 260), nalt, q, guard = 0;
        if (!altbase) {
            altbase = (const char **)calloc((size_t)lx->n / 4 + 1, sizeof(char *));
            for (q = 0; q < lx->n; ++q) { const char *w = lx->word[q]; size_t l = strlen(w); const char *c; int ok = l > 3 && !strcmp(w + l - 3, "(2)"); for (c = w; ok && c < w + l - 3; ++c) if (!isalpha((unsigned char)*c)) ok = 0; if (ok && naltbase < lx->n / 4) { char *b = strdup(w); b[l - 3] = 0; altbase[naltbase++] = b; } }
        }
        nalt = vh_chance(r, 0.3) ? 0 : vh_range(r, 1, V < 40 ? V : 40);
        vh_sb_reset(out);
        if (t == T_JSGF) vh_sb_printf(out, "#JSGF V1.0;\ngrammar big;\npublic <w> = (");
        else if (t == T_FSG) vh_sb_printf(out, "FSG_BEGIN big\nNUM_STATES 2\nSTART_STATE 0\nFINAL_STATE 1\n");
        for (q = 0; q < V && guard < 4000; ++guard) {
            const char *w; const char *c; int ok = 1;
            /* the words with alternates come last half of the time: their flags are then the highest-numbered ones */
            int want_alt = naltbase > 0 && (nalt >= V - q || (nalt > 0 && vh_chance(r, 0.5) && guard % 2 == 0));
            if (want_alt) { w = altbase[vh_below(r, (uint32_t)naltbase)]; }
            else { w = lx->word[vh_below(r, (uint32_t)lx->n)]; for (c = w; *c; ++c) if (!isalpha((unsigned char)*c)) ok = 0; if (!ok || !*w) continue; }
            if (want_alt) --nalt;
            if (t == T_JSGF) vh_sb_printf(out, "%s%s", q ? " | " : " ", w);
            else if (t == T_FSG) vh_sb_printf(out, "TRANSITION %d %d %g %s\n", q % 2 ? 1 : 0, q % 3 ? 1 : 0, 1.0 / (1 + q % 4), w);
            else vh_sb_printf(out, "%s%s", q ? " " : "", w);
            ++q;
        }
        if (t == T_JSGF) vh_sb_printf(out, " )+ ;\n");
        else if (t == T_FSG) vh_sb_printf(out, "TRANSITION 0 1 0.1\nFSG_END\n");
        vh_count("large_vocabulary_grammars", 1); vh_max("max_generated_vocabulary", V);
        if (vh_chance(r, 0.7)) return;
    } else
    if (vh_chance(r, 0.06)) {                             /* unstructured bytes */
        int n = vh_range(r, 0, 300); vh_sb_reset(out); for (k = 0; k < n; ++k) vh_sb_putc(out, (int)vh_below(r, 256)); return;
    }
    nm = vh_chance(r, 0.5) ? 1 : vh_range(r, 2, 6);
    for (k = 0; k < nm; ++k) {
        size_t n = out->n, pos = n ? vh_below(r, (uint32_t)n + 1) : 0; int op = (int)vh_below(r, 14);
        switch (op) {
        case 0: if (n) out->s[vh_below(r, (uint32_t)n)] ^= (char)(1 << vh_below(r, 8)); break;                                  /* bit flip */
        case 1: if (n) { size_t a = vh_below(r, (uint32_t)n), len = vh_below(r, (uint32_t)(n - a) + 1); if (len > 200) len = 200; memmove(out->s + a, out->s + a + len, n - a - len); out->n -= len; out->s[out->n] = 0; } break; /* delete */
        case 2: if (n) { size_t a = vh_below(r, (uint32_t)n), len = vh_below(r, (uint32_t)(n - a) + 1), q; char *tmp; int reps = vh_range(r, 1, 4); if (len > 400) len = 400; tmp = (char *)malloc(len + 1); memcpy(tmp, out->s + a, len); for (q = 0; q < (size_t)reps; ++q) { vh_sb_write(out, "", 0); /* ensure room */ { vh_sb t2; vh_sb_init(&t2); vh_sb_write(&t2, out->s, a); vh_sb_write(&t2, tmp, len); vh_sb_write(&t2, out->s + a, out->n - a); vh_sb_reset(out); vh_sb_write(out, t2.s, t2.n); vh_sb_free(&t2); } } free(tmp); } break; /* duplicate chunk */
        case 3: case 4: case 5: { const char *tok = dict_tok[t][vh_below(r, (uint32_t)ntok)]; vh_sb t2; vh_sb_init(&t2); vh_sb_write(&t2, out->s, pos); vh_sb_write(&t2, tok, strlen(tok)); if (vh_chance(r, 0.5)) vh_sb_putc(&t2, ' '); vh_sb_write(&t2, out->s + pos, out->n - pos); vh_sb_reset(out); vh_sb_write(out, t2.s, t2.n); vh_sb_free(&t2); break; } /* insert token */
        case 6: { const seed *o = &seeds[t][vh_below(r, (uint32_t)nseeds[t])]; size_t a = o->n ? vh_below(r, (uint32_t)o->n) : 0; out->n = pos; if (out->s) out->s[pos] = 0; vh_sb_write(out, o->s + a, o->n - a); break; }             /* splice */
        case 7: { /* replace a number by an edge value */
            static const char *edge[] = { "0", "-1", "2147483647", "2147483648", "4294967296", "-2147483649", "99999999999999999999", "1e308", "1e-320", "1e999", "nan", "inf", "-0", "0.0000001", "1.0000001", "007", "0x7fffffff", "" };
            size_t a; for (a = 0; a < out->n; ++a) if (isdigit((unsigned char)out->s[(a + pos) % (out->n ? out->n : 1)])) break;
            if (a < out->n) { size_t st = (a + pos) % out->n, en = st; const char *e = VH_PICK(r, edge); vh_sb t2; while (en < out->n && (isdigit((unsigned char)out->s[en]) || out->s[en] == '.' || out->s[en] == 'e' || out->s[en] == '-')) ++en; vh_sb_init(&t2); vh_sb_write(&t2, out->s, st); vh_sb_write(&t2, e, strlen(e)); vh_sb_write(&t2, out->s + en, out->n - en); vh_sb_reset(out); vh_sb_write(out, t2.s, t2.n); vh_sb_free(&t2); }
            break; }
        case 8: out->n = pos; if (out->s) out->s[pos] = 0; break;                                                            /* truncate: missing terminators */
        case 9: { int len = vh_chance(r, 0.2) ? 65536 : vh_range(r, 300, 5000), q; vh_sb t2; vh_sb_init(&t2); vh_sb_write(&t2, out->s, pos); for (q = 0; q < len; ++q) vh_sb_putc(&t2, 'a' + q % 26); vh_sb_write(&t2, out->s + pos, out->n - pos); vh_sb_reset(out); vh_sb_write(out, t2.s, t2.n); vh_sb_free(&t2); break; } /* very long token */
        case 10: { static const char *open[] = { "(", "[", "{", "<", "\"", "/*", "( [ ", "<a> = (" }, *close[] = { ")", "]", "}", ">", "\"", "*/", " ] )", ");" }; int w = (int)vh_below(r, 8), depth = vh_chance(r, 0.15) ? 10000 : vh_range(r, 5, 120), q; if (depth > 120 && w == 5) w = 0;   /* '/*' x N closes itself into N/2 nested Kleene stars: polynomial compile time, not a hang */ vh_sb t2; vh_sb_init(&t2); vh_sb_write(&t2, out->s, pos); for (q = 0; q < depth; ++q) vh_sb_write(&t2, open[w], strlen(open[w])); vh_sb_write(&t2, "go", 2); if (depth <= 120 && vh_chance(r, 0.7)) for (q = 0; q < depth; ++q) vh_sb_write(&t2, close[w], strlen(close[w]));   /* the very deep ones stay unclosed: they test the parser's stack, not the (polynomial) compiler */ vh_sb_write(&t2, out->s + pos, out->n - pos); vh_sb_reset(out); vh_sb_write(out, t2.s, t2.n); vh_sb_free(&t2); break; } /* deep nesting */
        case 11: { int q, nb = vh_range(r, 1, 6); vh_sb t2; vh_sb_init(&t2); vh_sb_write(&t2, out->s, pos); for (q = 0; q < nb; ++q) vh_sb_putc(&t2, VH_PICK(r, ((int[]){ 0x80, 0xff, 0xc0, 0xfe, 0xed, 0xa0, 0xf8, 0x01, 0x1b, 0x7f, 0x0b, 0x0c, 0x00 }))); vh_sb_write(&t2, out->s + pos, out->n - pos); vh_sb_reset(out); vh_sb_write(out, t2.s, t2.n); vh_sb_free(&t2); break; } /* non-UTF-8 / control */
        case 12: if (n) { size_t a = vh_below(r, (uint32_t)n); out->s[a] = VH_PICK(r, ((char[]){ '\n', ' ', '\t', '\r', ';', '|', '(', ')', '"', '\\', '/', '0', '-' })); } break;
        default: if (n > 1) { size_t a = vh_below(r, (uint32_t)n), b = vh_below(r, (uint32_t)n); char c = out->s[a]; out->s[a] = out->s[b]; out->s[b] = c; } break;
        }
        if (out->n > 400000) { out->n = 400000; out->s[out->n] = 0; }
    }
}

/* ---------------- using what comes back ---------------- */
static void short_decode(decoder_t *d)
{
    long nr; const int16_t *rec = vd_recording(0, &nr); int32 sc; seg_iter_t *it;
    vh_ctx("decoder_start_utt"); if (decoder_start_utt(d) < 0) return;
    vh_ctx("decoder_process_int16"); decoder_process_int16(d, (int16 *)rec + 8000, 4000, 0, 0);
    vh_ctx("decoder_end_utt"); decoder_end_utt(d);
    vh_ctx("decoder_hyp"); decoder_hyp(d, &sc);
    vh_ctx("decoder_seg_iter"); for (it = decoder_seg_iter(d); it; it = seg_iter_next(it)) { }
    vh_ctx("decoder_result_json"); decoder_result_json(d, 0.0, 0);
    vh_count("short_decodes", 1);
}
static long walk_fsg(fsg_model_t *fsg)
{
    int i; long n = 0;
    for (i = 0; i < fsg_model_n_state(fsg); ++i) { fsg_arciter_t *it; for (it = fsg_model_arcs(fsg, i); it; it = fsg_arciter_next(it)) { fsg_link_t *l = fsg_arciter_get(it); const char *w = fsg_model_word_str(fsg, l->wid); n += (long)(w ? strlen(w) : 0) + l->to_state; if (n > 100000000) { fsg_arciter_free(it); return n; } } if (i > 200000) break; }
    return n;
}
static decoder_t *live_decoder(void) { vd_cfg c; vd_cfg_default(&c, VD_EN); return vd_decoder(&c); }

static void run_target(int t, const char *in, size_t n, vh_rng *r)
{
    decoder_t *d;
    switch (t) {
    case T_JSGF: {
        jsgf_t *j; logmath_t *lm = logmath_init(1.0001, 0, 1);
        vh_ctx("jsgf_parse_string"); j = jsgf_parse_string(in, NULL);
        if (j) {
            jsgf_rule_iter_t *it; int nr = 0;
            vh_count("objects_returned_jsgf", 1);
            for (it = jsgf_rule_iter(j); it; it = jsgf_rule_iter_next(it)) {
                jsgf_rule_t *rule = jsgf_rule_iter_rule(it); fsg_model_t *f;
                if (++nr > 60) { jsgf_rule_iter_free(it); break; }
                if (!jsgf_rule_public(rule) && vh_chance(r, 0.5)) continue;
                vh_ctx("jsgf_build_fsg"); f = vh_chance(r, 0.5) ? jsgf_build_fsg(j, rule, lm, 6.5f) : jsgf_build_fsg_raw(j, rule, lm, 1.0f);
                if (f) { char *txt = NULL; size_t tl = 0; FILE *fp; vh_ctx("fsg_model_arcs"); walk_fsg(f); if (fsg_model_n_state(f) < 3000) { fp = open_memstream(&txt, &tl); vh_ctx("fsg_model_write"); fsg_model_write(f, fp); fclose(fp); free(txt); } vh_ctx("fsg_model_free"); fsg_model_free(f); vh_count("fsgs_built_from_jsgf", 1); }
            }
            vh_ctx("jsgf_grammar_free"); jsgf_grammar_free(j);
        }
        logmath_free(lm);
        if ((d = live_decoder()) != NULL && n < 20000) { vh_ctx("decoder_set_jsgf_string"); if (decoder_set_jsgf_string(d, in) == 0) { vh_count("grammars_loaded_into_decoder", 1); short_decode(d); } }
        break; }
    case T_FSG: {
        char *exact = (char *)malloc(n ? n : 1); s3file_t *s3; fsg_model_t *f; logmath_t *lm = logmath_init(1.0001, 0, 1);
        memcpy(exact, in, n);   /* exact-size buffer: the reader gets a length, not a terminator */
        s3 = s3file_init(exact, n);
        vh_ctx("fsg_model_read_s3file"); f = fsg_model_read_s3file(s3, lm, 6.5f);
        s3file_free(s3);
        if (f) {
            vh_count("objects_returned_fsg", 1);
            vh_ctx("fsg_model_arcs"); walk_fsg(f);
            if (fsg_model_n_state(f) < 3000) { char *txt = NULL; size_t tl = 0; FILE *fp = open_memstream(&txt, &tl); vh_ctx("fsg_model_write"); fsg_model_write(f, fp); fclose(fp); free(txt); }
            if (fsg_model_n_state(f) < 3000 && vh_chance(r, 0.3)) { vh_ctx("fsg_model_add_silence"); fsg_model_add_silence(f, "<sil>", -1, 0.005f); if (fsg_model_n_word(f) > 0) { vh_ctx("fsg_model_add_alt"); fsg_model_add_alt(f, fsg_model_word_str(f, 0), "alt(2)"); } }
            if ((d = live_decoder()) != NULL && fsg_model_n_state(f) < 3000) { vh_ctx("decoder_set_fsg"); if (decoder_set_fsg(d, f) == 0) { vh_count("grammars_loaded_into_decoder", 1); short_decode(d); } /* consumed either way */ }
            else { vh_ctx("fsg_model_free"); fsg_model_free(f); }
        }
        free(exact); logmath_free(lm);
        /* the `fsg:` configuration path of decoder_init, now and then (slow) */
        if (vh_chance(r, 0.004)) { config_t *cf; vd_cfg c; decoder_t *d2; char *path = vh_path("%s/fuzz.fsg", vh_tmpdir()); vd_cfg_default(&c, VD_EN); vh_write_file(path, in, n); cf = vd_make_config(&c); config_set_str(cf, "fsg", path); vh_ctx("decoder_init(fsg:)"); d2 = decoder_init(cf); if (d2) { short_decode(d2); decoder_free(d2); } vh_count("decoder_init_with_fsg_file", 1); }
        break; }
    case T_DICT: {
        char *exact = (char *)malloc(n ? n : 1); s3file_t *s3, *s3f = NULL; dict_t *dc; config_t *cf = config_init(NULL); size_t cut = vh_chance(r, 0.3) ? (n ? vh_below(r, (uint32_t)n) : 0) : n;
        d = live_decoder(); if (!d) { free(exact); config_free(cf); break; }
        memcpy(exact, in, n);
        s3 = s3file_init(exact, cut); if (cut < n) s3f = s3file_init(exact + cut, n - cut);   /* second part as filler dictionary */
        if (vh_chance(r, 0.3)) config_set_bool(cf, "dictcase", 1);
        vh_ctx("dict_init_s3file"); dc = dict_init_s3file(cf, d->acmod->mdef, s3, s3f);
        s3file_free(s3); s3file_free(s3f);
        if (dc) {
            dict2pid_t *d2p; int w, lim;
            vh_count("objects_returned_dict", 1);
            lim = dict_size(dc) < 500 ? dict_size(dc) : 500;
            for (w = 0; w < lim; ++w) { const char *ws = dict_wordstr(dc, w); if (ws) { int q; dict_wordid(dc, ws); for (q = 0; q < dict_pronlen(dc, w) && q < 50; ++q) dict_ciphone_str(dc, w, q); if (dict_basewid(dc, w) >= 0 && dict_basewid(dc, w) < dict_size(dc)) dict_basestr(dc, w); } }
            vh_ctx("dict2pid_build"); d2p = dict2pid_build(d->acmod->mdef, dc);
            if (d2p) { vh_ctx("dict2pid_free"); dict2pid_free(d2p); }
            vh_ctx("dict_free"); dict_free(dc);
        }
        config_free(cf); free(exact);
        break; }
    case T_CONFIG: {
        config_t *cf; vh_ctx("config_parse_json"); cf = config_parse_json(NULL, in);
        if (cf) {
            const char *js;
            vh_count("objects_returned_config", 1);
            vh_ctx("config getters"); config_int(cf, "samprate"); config_float(cf, "beam"); config_str(cf, "hmm"); config_bool(cf, "remove_noise"); config_str(cf, "loglevel"); config_float(cf, "lw"); config_int(cf, "nfft"); config_str(cf, "cmn");
            vh_ctx("config_serialize_json"); js = config_serialize_json(cf);
            if (js) { config_t *c2; char *copy = strdup(js); vh_ctx("config_parse_json(reparse)"); c2 = config_parse_json(NULL, copy); if (c2) config_free(c2); else vh_viol("config_serialize_not_reparsable", "config_serialize_json produced text that config_parse_json refuses: %.300s", copy); free(copy); vh_count("config_roundtrips", 1); }
            /* parse on top of an existing configuration as well */
            vh_ctx("config_parse_json(update)"); config_parse_json(cf, in);
            /* the signal-processing objects built from it */
            {
                fe_t *fe; feat_t *fcb;
                config_set_str(cf, "loglevel", "WARN"); config_set_str(cf, "lda", NULL);
                vh_ctx("fe_init"); fe = fe_init(cf);
                if (fe) {
                    static int16 buf[9000]; int16 *pp = buf; size_t ns = 9000; int q, osz, room = 16; mfcc_t **cep;   /* longer than any window the FFT limit allows plus one shift */
                    for (q = 0; q < 9000; ++q) buf[q] = (int16)vh_range(r, -8000, 8000);
                    osz = fe_get_output_size(fe);
                    if (osz > 0 && osz < 4096) {
                        cep = (mfcc_t **)ckd_calloc_2d(room, (size_t)osz, sizeof(mfcc_t));
                        vh_ctx("fe_process_int16"); fe_start(fe); fe_process_int16(fe, &pp, &ns, cep, room - 1); vh_ctx("fe_end"); fe_end(fe, cep, 1);
                        ckd_free_2d(cep);
                    }
                    vh_count("front_ends_built_from_config", 1);
                    vh_ctx("fe_free"); fe_free(fe);
                }
                vh_ctx("feat_init"); fcb = feat_init(cf);
                if (fcb) {
                    int nfr = 8, t2, k2, cl = feat_cepsize(fcb); mfcc_t **mfc, ***ft;
                    if (cl > 0 && cl < 512) {
                        mfc = (mfcc_t **)ckd_calloc_2d(8, (size_t)cl, sizeof(mfcc_t));
                        for (t2 = 0; t2 < 8; ++t2) for (k2 = 0; k2 < cl; ++k2) mfc[t2][k2] = (mfcc_t)(0.25f * (float)((t2 * 5 + k2 * 3) % 13) - 1.0f);
                        ft = feat_array_alloc(fcb, 8 + 8);
                        vh_ctx("feat_s2mfc2feat_live"); feat_s2mfc2feat_live(fcb, mfc, &nfr, 1, 1, ft);
                        feat_array_free(ft); ckd_free_2d(mfc);
                    }
                    vh_count("feature_modules_built_from_config", 1);
                    vh_ctx("feat_free"); feat_free(fcb);
                }
            }
            config_free(cf);
        }
        break; }
    case T_ALIGN:
        if ((d = live_decoder()) != NULL) { vh_ctx("decoder_set_align_text"); if (decoder_set_align_text(d, in) == 0) { vh_count("texts_accepted", 1); short_decode(d); vh_ctx("decoder_alignment"); decoder_alignment(d); } }
        break;
    case T_ADDWORD:
        if ((d = live_decoder()) != NULL) {
            char *copy = (char *)malloc(n + 1), *nl; const char *phones = ""; int rv;
            memcpy(copy, in, n); copy[n] = 0; nl = strchr(copy, '\n'); if (nl) { *nl = 0; phones = nl + 1; }
            if (dict_size(d->dict) > 140000) { vd_drop_decoders(); d = live_decoder(); }   /* do not grow without bound */
            vh_ctx("decoder_add_word"); rv = decoder_add_word(d, copy, phones, vh_chance(r, 0.3));
            if (rv >= 0) { char *pr; vh_count("words_accepted", 1); vh_ctx("decoder_lookup_word"); pr = decoder_lookup_word(d, copy); ckd_free(pr); if (vh_chance(r, 0.05) && !strpbrk(copy, " \t\n\r")) { char txt[600]; snprintf(txt, sizeof(txt), "go %.500s", copy); if (decoder_set_align_text(d, txt) == 0) short_decode(d); } }
            free(copy);
        }
        break;
    default:
        if ((d = live_decoder()) != NULL) { const char *c; vh_ctx("decoder_set_cmn"); if (decoder_set_cmn(d, in) == 0) vh_count("cmn_accepted", 1); vh_ctx("decoder_get_cmn"); c = decoder_get_cmn(d, 0); (void)c; if (vh_chance(r, 0.05)) { decoder_set_jsgf_string(d, "#JSGF V1.0; grammar g; public <a> = go forward ten meters;"); short_decode(d); } decoder_set_cmn(d, "40,3,-1"); }
        break;
    }
}

static void run(long i, vh_rng *r)
{
    static vh_sb in; static int inited; int t = (int)(i % NT);
    if (!inited) { vh_sb_init(&in); inited = 1; }
    mutate(r, t, &in);
    if (!in.s) vh_sb_write(&in, "", 0);
    vh_class(tname[t]);
    if (vh_dump_dir) vh_write_file(vh_path("%s/input.%s", vh_dump_dir, tname[t]), in.s, in.n);
    /* string entry points stop at the first NUL: that is their contract, not a finding */
    run_target(t, in.s, t == T_FSG || t == T_DICT ? in.n : strlen(in.s), r);
    vh_count(vh_path("inputs_%s", tname[t]), 1);
    vh_nontrivial("%016llx", (unsigned long long)vh_hash(in.s, in.n, (uint64_t)t));
    if (i % 3000 == 1500 + t) vh_sample("[%s] %zu bytes: %.120s", tname[t], in.n, in.s);
}

static void teardown(void) { vd_drop_decoders(); }
static const vh_harness H = { "h_fuzz", ncases, setup, run, teardown, 180 };
int main(int argc, char **argv) { return vh_main(argc, argv, &H); }
