/* h_align.c -- C04: forced alignment is a consistent words > phones > states hierarchy.
 * VH_SOURCES: vfsa.c vdec.c vjson.c
 *
 * Every case decodes generated audio with a generated grammar / alignment text and asks for the
 * alignment at partial points and after the utterance.  The monitor walks the returned object through
 * the public iterators and checks it against
 *   - the first-pass segmentation observed just before (words, start frames, durations),
 *   - the harness' own parse of dict.txt / noisedict.txt (phones of every word),
 *   - the model tables (emitting states of the context-dependent phone, chosen by an independent
 *     context rule),
 *   - arithmetic on the reported times and scores (contiguity, partition, parent = sum of children),
 *   - an independent re-scoring of the reported state path with senone scores re-computed by the
 *     harness (compallsen runs) and, where the two passes optimise the same function, the acoustic
 *     part of the first-pass word scores.
 */
#include "vh.h"
#include "vfsa.h"
#include "vdec.h"
#include "vjson.h"
#include <math.h>
#include <ctype.h>
#include <soundswallower/alignment.h>
#include <soundswallower/state_align_search.h>
#include <soundswallower/fsg_search.h>
#include <soundswallower/fsg_lextree.h>
#include <soundswallower/err.h>
#include <soundswallower/tmat.h>
#include <soundswallower/bin_mdef.h>
#include <soundswallower/dict.h>
#include <soundswallower/ssverif.h>

/* frame scores of the second pass itself, recorded through hook H1 while decoder_alignment() runs */
typedef struct tapbuf { int16 *s; int nsen, nfr, cap; } tapbuf;
static tapbuf TAP, TAP1;   /* second pass (one decoder_alignment call) / first pass (the utterance so far) */
static void tap_cb(void *user, int fr, const short *sc, int n)
{
    tapbuf *t = (tapbuf *)user;
    if (fr < 0 || fr > 100000) return;
    if (t->nsen != n) { free(t->s); t->s = NULL; t->cap = 0; t->nsen = n; t->nfr = 0; }
    if (fr >= t->cap) { int nc = t->cap ? t->cap * 2 : 256; while (nc <= fr) nc *= 2; t->s = (int16 *)realloc(t->s, sizeof(int16) * (size_t)nc * (size_t)n); t->cap = nc; }
    memcpy(t->s + (size_t)fr * (size_t)n, sc, sizeof(int16) * (size_t)n); if (fr + 1 > t->nfr) t->nfr = fr + 1;
}

typedef struct ent { int start, dur, score; char name[96]; int cipid, ssid, tmatid, senid, wid; int first_child, nchild; } ent;
typedef struct hier { int nw, np, ns; ent *w, *p, *s; } hier;

typedef struct ctx {
    decoder_t *d; vd_gram *g; vd_cfg cfg; vd_search sp; const vd_audio *a; vh_rng *r; int lang;
    int partials, alignments, exact_domain;
    int16 *sen; int nsen, nfr_sen;           /* senone scores re-computed by the harness (final result, compallsen) */
} ctx;

static long ncases(int tier, long req) { if (req >= 0) return req; return tier ? 12000 : 500; }
static void setup(void) { err_set_loglevel(getenv("VH_LIBLOG") ? ERR_INFO : ERR_FATAL); vd_init(); }

/* ---------- filler dictionary (own parse) ---------- */
static char fill_word[2][32][48], fill_pron[2][32][48]; static int nfill[2], fill_loaded[2];
static const char *filler_pron(int lang, const char *w)
{
    int i;
    if (!fill_loaded[lang]) {
        size_t n = 0; char *t = (char *)vh_read_file(vh_path("%s/model/%s/noisedict.txt", vh_repo, lang == VD_FR ? "fr-fr" : "en-us"), &n), *p, *save = NULL;
        fill_loaded[lang] = 1;
        for (p = t ? strtok_r(t, "\n", &save) : NULL; p && nfill[lang] < 32; p = strtok_r(NULL, "\n", &save)) {
            char a[48], b[48]; if (sscanf(p, "%47s %47s", a, b) == 2) { strcpy(fill_word[lang][nfill[lang]], a); strcpy(fill_pron[lang][nfill[lang]], b); ++nfill[lang]; }
        }
        free(t);
    }
    for (i = 0; i < nfill[lang]; ++i) if (!strcmp(fill_word[lang][i], w)) return fill_pron[lang][i];
    if (!strcmp(w, "<s>") || !strcmp(w, "</s>") || !strcmp(w, "<sil>")) return "SIL";
    return NULL;
}

/* ---------- reading the hierarchy through the public iterators ---------- */
static void hier_free(hier *h) { free(h->w); free(h->p); free(h->s); memset(h, 0, sizeof(*h)); }
static void fill_ent(ent *e, alignment_iter_t *it, int level)
{
    alignment_entry_t *ae = alignment_iter_get(it); const char *nm = alignment_iter_name(it);
    memset(e, 0, sizeof(*e));
    e->score = alignment_iter_seg(it, &e->start, &e->dur);
    snprintf(e->name, sizeof(e->name), "%s", nm ? nm : "(null)");
    if (level == 0) e->wid = ae->id.wid; else if (level == 1) { e->cipid = ae->id.pid.cipid; e->ssid = ae->id.pid.ssid; e->tmatid = ae->id.pid.tmatid; } else e->senid = ae->id.senid;
    e->first_child = -1;
}
static int hier_read(hier *h, alignment_t *al)
{
    alignment_iter_t *wi, *pi, *si; int np_flat = 0, ns_flat = 0, k;
    memset(h, 0, sizeof(*h));
    h->w = (ent *)calloc((size_t)alignment_n_words(al) + 1, sizeof(ent)); h->p = (ent *)calloc((size_t)alignment_n_phones(al) + 1, sizeof(ent)); h->s = (ent *)calloc((size_t)alignment_n_states(al) + 1, sizeof(ent));
    for (wi = alignment_words(al); wi; wi = alignment_iter_next(wi)) {
        ent *w;
        if (h->nw >= alignment_n_words(al)) { vh_viol("iterator_overruns|words", "the word iterator yields more entries than alignment_n_words"); alignment_iter_free(wi); return -1; }
        w = &h->w[h->nw++]; fill_ent(w, wi, 0);
        for (pi = alignment_iter_children(wi); pi; pi = alignment_iter_next(pi)) {
            ent *p;
            if (h->np >= alignment_n_phones(al)) { vh_viol("iterator_overruns|phones", "children iterators yield more phones than alignment_n_phones"); alignment_iter_free(pi); alignment_iter_free(wi); return -1; }
            p = &h->p[h->np]; fill_ent(p, pi, 1);
            if (w->first_child < 0) w->first_child = h->np;
            ++w->nchild; ++h->np;
            for (si = alignment_iter_children(pi); si; si = alignment_iter_next(si)) {
                ent *s;
                if (h->ns >= alignment_n_states(al)) { vh_viol("iterator_overruns|states", "children iterators yield more states than alignment_n_states"); alignment_iter_free(si); alignment_iter_free(pi); alignment_iter_free(wi); return -1; }
                s = &h->s[h->ns]; fill_ent(s, si, 2);
                if (p->first_child < 0) p->first_child = h->ns;
                ++p->nchild; ++h->ns;
            }
        }
    }
    /* the flat iterators must list the same entries in the same order */
    for (pi = alignment_phones(al), k = 0; pi; pi = alignment_iter_next(pi), ++k) {
        ent e; fill_ent(&e, pi, 1); ++np_flat;
        if (k < h->np && (e.start != h->p[k].start || e.dur != h->p[k].dur || e.score != h->p[k].score || e.cipid != h->p[k].cipid)) { vh_viol("flat_and_nested_iterators_differ|phones", "phone %d: alignment_phones gives %s@%d+%d, the children of the words give %s@%d+%d", k, e.name, e.start, e.dur, h->p[k].name, h->p[k].start, h->p[k].dur); alignment_iter_free(pi); break; }
    }
    for (si = alignment_states(al), k = 0; si; si = alignment_iter_next(si), ++k) {
        ent e; fill_ent(&e, si, 2); ++ns_flat;
        if (k < h->ns && (e.start != h->s[k].start || e.dur != h->s[k].dur || e.score != h->s[k].score || e.senid != h->s[k].senid)) { vh_viol("flat_and_nested_iterators_differ|states", "state %d: alignment_states gives %d@%d+%d, the children of the phones give %d@%d+%d", k, e.senid, e.start, e.dur, h->s[k].senid, h->s[k].start, h->s[k].dur); alignment_iter_free(si); break; }
    }
    if (np_flat != h->np || h->np != alignment_n_phones(al)) vh_viol("entry_counts_disagree|phones", "%d phones under the words, %d in the flat iteration, alignment_n_phones says %d", h->np, np_flat, alignment_n_phones(al));
    if (ns_flat != h->ns || h->ns != alignment_n_states(al)) vh_viol("entry_counts_disagree|states", "%d states under the phones, %d in the flat iteration, alignment_n_states says %d", h->ns, ns_flat, alignment_n_states(al));
    if (h->nw != alignment_n_words(al)) vh_viol("entry_counts_disagree|words", "%d words iterated, alignment_n_words says %d", h->nw, alignment_n_words(al));
    return 0;
}

/* ---------- independent context rule: which senone sequence is "that phone" ---------- */
static int ci_id(bin_mdef_t *m, const char *name) { int i; for (i = 0; i < m->n_ciphone; ++i) if (!strcmp(m->ciname[i], name)) return i; return -1; }

/* ---------- the checks ---------- */
static const char *LVL[3] = { "words", "phones", "states" };
static void check_level_times(const ent *e, int n, int level, int total_end)
{
    int k, expect = 0;
    for (k = 0; k < n; ++k) {
        if (e[k].dur <= 0) { vh_viol(vh_path("nonpositive_duration|%s", LVL[level]), "%s entry %d (%s) has duration %d (start %d)", LVL[level], k, e[k].name, e[k].dur, e[k].start); return; }
        if (e[k].start != expect) { vh_viol(vh_path("level_not_contiguous|%s", LVL[level]), "%s entry %d (%s) starts at frame %d, the previous entry ends at %d%s", LVL[level], k, e[k].name, e[k].start, expect, k == 0 ? " (the level must start at frame 0)" : ""); return; }
        expect = e[k].start + e[k].dur;
    }
    if (n && total_end >= 0 && expect != total_end) vh_viol(vh_path("level_does_not_cover_utterance|%s", LVL[level]), "the %s end at frame %d, the segmentation ends at %d", LVL[level], expect, total_end);
}
static void check_partition(const ent *par, int npar, const ent *ch, int parent_level)
{
    int k, j;
    for (k = 0; k < npar; ++k) {
        long sumd = 0, sums = 0;
        if (par[k].nchild <= 0) { vh_viol(vh_path("no_children|%s", LVL[parent_level]), "%s entry %d (%s) has no children", LVL[parent_level], k, par[k].name); return; }
        for (j = 0; j < par[k].nchild; ++j) { sumd += ch[par[k].first_child + j].dur; sums += ch[par[k].first_child + j].score; }
        if (ch[par[k].first_child].start != par[k].start || sumd != par[k].dur) { vh_viol(vh_path("children_do_not_partition_parent|%s", LVL[parent_level]), "%s entry %d (%s) covers %d+%d, its %d children start at %d and last %ld frames", LVL[parent_level], k, par[k].name, par[k].start, par[k].dur, par[k].nchild, ch[par[k].first_child].start, sumd); return; }
        if (sums != par[k].score) { vh_viol(vh_path("parent_score_not_sum_of_children|%s", LVL[parent_level]), "%s entry %d (%s) has score %d, its children sum to %ld", LVL[parent_level], k, par[k].name, par[k].score, sums); return; }
    }
}

static int split_pron(const char *pron, char out[][16], int max)
{
    int n = 0; const char *p = pron;
    while (*p && n < max) { size_t L = 0; while (*p && isspace((unsigned char)*p)) ++p; if (!*p) break; while (p[L] && !isspace((unsigned char)p[L])) ++L; snprintf(out[n], 16, "%.*s", (int)(L < 15 ? L : 15), p); ++n; p += L; }
    return n;
}

static void check_structure(ctx *c, const hier *h, const vd_result *res, const char *when)
{
    bin_mdef_t *m = c->d->acmod->mdef; int ne = bin_mdef_n_emit_state(m);
    int k, j, q, nsegw = 0, last_end = -1, sil = m->sil;
    const vd_lex *lx = vd_lexicon(c->lang);
    int *first_ci = (int *)calloc((size_t)h->nw + 1, sizeof(int)), *last_ci = (int *)calloc((size_t)h->nw + 1, sizeof(int));
    /* (1) the words are exactly the dictionary words of the segmentation */
    for (k = 0; k < res->nseg; ++k) {
        const vd_seg *s = &res->seg[k];
        if (dict_wordid(c->d->dict, s->word) == BAD_S3WID) { vh_count("segments_without_dictionary_word", 1); continue; }
        if (nsegw >= h->nw) { vh_viol("words_differ_from_segmentation", "%s: the segmentation has more dictionary words than the alignment (%d); first missing: %s@%d", when, h->nw, s->word, s->sf); goto done; }
        if (strcmp(h->w[nsegw].name, s->word) || h->w[nsegw].start != s->sf || h->w[nsegw].dur != s->ef - s->sf + 1) {
            vh_viol("words_differ_from_segmentation", "%s: word %d of the alignment is %s@%d+%d, the segmentation has %s@%d+%d", when, nsegw, h->w[nsegw].name, h->w[nsegw].start, h->w[nsegw].dur, s->word, s->sf, s->ef - s->sf + 1); goto done; }
        last_end = s->ef + 1; ++nsegw;
    }
    if (nsegw != h->nw) { vh_viol("words_differ_from_segmentation", "%s: the alignment has %d words, the segmentation %d dictionary words", when, h->nw, nsegw); goto done; }
    vh_count("words_compared_with_segmentation", h->nw);
    /* (2) times */
    check_level_times(h->w, h->nw, 0, last_end); check_level_times(h->p, h->np, 1, last_end); check_level_times(h->s, h->ns, 2, last_end);
    check_partition(h->w, h->nw, h->p, 0); check_partition(h->p, h->np, h->s, 1);
    /* (3) phones of each word = its dictionary pronunciation (own parse of the dictionary files) */
    for (k = 0; k < h->nw; ++k) {
        char ph[64][16]; int np; const char *pron = NULL; const ent *w = &h->w[k];
        if (vd_is_filler_word(w->name)) pron = filler_pron(c->lang, w->name);
        else { int li = vd_lex_find(lx, w->name); if (li >= 0) pron = lx->pron[li]; }
        if (!pron) { vh_inconc("word %s is not in the harness' parse of the dictionary", w->name); goto done; }
        np = split_pron(pron, ph, 64);
        if (np != w->nchild) { vh_viol("phones_differ_from_dictionary", "%s: %s has %d phones in the alignment, its pronunciation '%s' has %d", when, w->name, w->nchild, pron, np); goto done; }
        for (j = 0; j < np; ++j) if (strcmp(h->p[w->first_child + j].name, ph[j])) { vh_viol("phones_differ_from_dictionary", "%s: phone %d of %s is %s, the dictionary says '%s'", when, j, w->name, h->p[w->first_child + j].name, pron); goto done; }
        first_ci[k] = ci_id(m, ph[0]); last_ci[k] = ci_id(m, ph[np - 1]);
        vh_count("phones_compared_with_dictionary", np);
    }
    /* (4) states of each phone = the emitting states of that phone in its context */
    for (k = 0; k < h->nw; ++k) {
        const ent *w = &h->w[k];
        for (j = 0; j < w->nchild; ++j) {
            const ent *p = &h->p[w->first_child + j]; int b = ci_id(m, p->name), l, r, pos, pid, ssid;
            if (b < 0 || b != p->cipid) { vh_viol("phone_id_and_name_disagree", "phone %s has id %d", p->name, p->cipid); goto done; }
            l = j > 0 ? h->p[w->first_child + j - 1].cipid : (k > 0 ? last_ci[k - 1] : sil);
            r = j < w->nchild - 1 ? h->p[w->first_child + j + 1].cipid : (k < h->nw - 1 ? first_ci[k + 1] : sil);
            pos = w->nchild == 1 ? WORD_POSN_SINGLE : j == 0 ? WORD_POSN_BEGIN : j == w->nchild - 1 ? WORD_POSN_END : WORD_POSN_INTERNAL;
            pid = c->cfg.cionly ? b : vd_triphone(m, c->lang, b, l, r, pos);
            ssid = m->phone[pid].ssid;
            if (p->nchild != ne) { vh_viol("wrong_number_of_states", "%s: phone %s of %s has %d states, the model has %d emitting states per phone", when, p->name, w->name, p->nchild, ne); goto done; }
            if (p->tmatid != m->phone[b].tmat) { vh_viol("wrong_transition_matrix", "phone %s carries transition matrix %d, the model says %d", p->name, p->tmatid, m->phone[b].tmat); goto done; }
            for (q = 0; q < ne; ++q) {
                int want = m->sseq[ssid][q], got = h->s[p->first_child + q].senid;
                if (got != want) {
                    vh_viol(vh_path("states_not_of_that_phone|%s", pos == WORD_POSN_SINGLE ? "single_phone_word" : pos == WORD_POSN_BEGIN ? "first_phone" : pos == WORD_POSN_END ? "last_phone" : "internal_phone"),
                            "%s: state %d of phone %s (word %s, left context %s, right context %s) is senone %d; the model's phone %d for that context has senones %d %d %d", when, q, p->name, w->name, m->ciname[l], m->ciname[r], got, pid, m->sseq[ssid][0], ne > 1 ? m->sseq[ssid][1] : -1, ne > 2 ? m->sseq[ssid][2] : -1);
                    goto done;
                }
                if (atoi(h->s[p->first_child + q].name) != got) { vh_viol("state_name_and_id_disagree", "state named %s has senone id %d", h->s[p->first_child + q].name, got); goto done; }
            }
            vh_count(pos == WORD_POSN_SINGLE ? "single_phone_words_checked" : "phones_state_checked", 1);
        }
    }
done:
    free(first_ci); free(last_ci);
}

/* re-score the reported state path with senone scores re-computed by the harness */
static void check_rescoring(ctx *c, const hier *h)
{
    tmat_t *tm = c->d->acmod->tmat; int k, j, conv_exit_ok = 1, conv_entry_ok = 1, first_bad = -1; long first_want = 0;
    long total = 0, total_want = 0;
    int ne = bin_mdef_n_emit_state(c->d->acmod->mdef);
    if (!c->sen || h->ns == 0) return;
    for (k = 0; k < h->np; ++k) {
        const ent *p = &h->p[k]; long phone_want = 0;
        for (j = 0; j < p->nchild; ++j) {
            const ent *s = &h->s[p->first_child + j]; long em = 0, self, out, in = 0; int t, nj = (j + 1 < p->nchild) ? j + 1 : ne;
            if (s->start < 0 || s->start + s->dur > c->nfr_sen || s->dur <= 0 || s->senid >= c->nsen) return;   /* times are reported elsewhere */
            for (t = s->start; t < s->start + s->dur; ++t) em += c->sen[(long)t * c->nsen + s->senid];
            self = (long)(s->dur - 1) * tm->tp[p->tmatid][j][j];
            out = tm->tp[p->tmatid][j][nj];
            if (j > 0) in = tm->tp[p->tmatid][j - 1][j];
            if (s->score != -(em + self + out)) { conv_exit_ok = 0; if (first_bad < 0) { first_bad = p->first_child + j; first_want = -(em + self + out); } }
            if (s->score != -(em + self + in + (j == p->nchild - 1 ? out : 0))) conv_entry_ok = 0;
            phone_want += em + self + out;
        }
        if (p->score != -phone_want) { vh_viol("phone_score_not_achieved_by_its_state_path", "phone %d (%s, frames %d+%d) reports score %d; its reported state path costs %ld (emissions re-computed by the harness + transitions incl. the exit)", k, p->name, p->start, p->dur, p->score, -phone_want); return; }
        total += p->score; total_want += phone_want;
    }
    if (!conv_exit_ok && !conv_entry_ok) {
        const ent *s = &h->s[first_bad];
        vh_viol(first_bad == 0 ? "state_score_not_achieved|first_state" : "state_score_not_achieved|other_state", "state %d (senone %d, frames %d+%d) reports score %d; emissions + self loops + transition give %ld (neither with the transition out of the state nor with the one into it do all states add up)", first_bad, s->senid, s->start, s->dur, s->score, first_want);
        return;
    }
    vh_count("state_paths_rescored", 1); vh_count("states_rescored", h->ns);
}

/* first-pass agreement in the domain where both passes optimise the same function */
static void check_first_pass(ctx *c, const hier *h, const vd_result *res, const char *when, int final)
{
    fsg_search_t *fs = (fsg_search_t *)c->d->search; int k, sw = 0;
    if (!c->exact_domain) return;
    {   /* both passes must have seen the same frame scores (the scorer's top-N selection keeps ties by history, so a re-scored frame can differ in rare cases) */
        int need = h->nw ? h->w[h->nw - 1].start + h->w[h->nw - 1].dur : 0;
        if (TAP.nfr < need || need <= 0) { vh_count("first_pass_comparison_skipped_alignment_served_from_cache", 1); return; }
        if (TAP1.nfr < need || TAP1.nsen != TAP.nsen) { vh_count("first_pass_comparison_skipped_no_first_pass_scores", 1); return; }
        if (memcmp(TAP.s, TAP1.s, sizeof(int16) * (size_t)need * (size_t)TAP.nsen)) { vh_count("first_pass_comparison_skipped_scores_differ_between_passes", 1); return; }
    }
    for (k = 0; k < res->nseg && sw < h->nw; ++k) {
        const vd_seg *s = &res->seg[k]; const ent *w; long acoustic; int content_single;
        if (dict_wordid(c->d->dict, s->word) == BAD_S3WID) continue;
        w = &h->w[sw++];
        content_single = (w->nchild == 1 && !vd_is_filler_word(w->name));
        if (content_single && !c->cfg.cionly) { vh_count("first_pass_comparison_skipped_single_phone_word", 1); continue; }   /* the first pass scores these with a fixed SIL right context, by design */
        if (sw == h->nw && (c->g->kind != VG_ALIGN_TEXT || !final) && !c->cfg.cionly) { vh_count("first_pass_comparison_skipped_last_word", 1); continue; }   /* right context of the last word: best of the grammar's continuations in the first pass */
        acoustic = (long)s->ascr - fs->wip - (long)fs->pip * w->nchild;
        if (acoustic != w->score) { vh_viol(sw == 1 ? "word_score_differs_from_first_pass|first_word" : "word_score_differs_from_first_pass|other_word", "%s: word %d (%s, frames %d+%d): alignment score %d, first pass acoustic part %ld (segment ascr %d - wip %d - %d phones x pip %d); open beams, compallsen", when, sw - 1, w->name, w->start, w->dur, w->score, acoustic, s->ascr, fs->wip, w->nchild, fs->pip); return; }
        vh_count("word_scores_equal_to_first_pass", 1);
    }
}

/* JSON rendering of the same hierarchy */
static void check_json(ctx *c, const hier *h, int level)
{
    const char *js; vj_val *v; const vj_val *wl; const char *err = NULL; int k, j, q; int frate = c->cfg.frate;
    vh_ctx("decoder_result_json"); js = decoder_result_json(c->d, 0.0, level);
    if (!js) { vh_viol("json_missing_with_alignment", "decoder_result_json(align_level=%d) returned NULL although decoder_alignment() succeeded", level); return; }
    v = vj_parse(js, strlen(js), &err);
    if (!v) { vh_viol("json_malformed", "align_level=%d: %s", level, err ? err : "?"); return; }
    wl = vj_get(v, "w");
    if (!wl || wl->type != VJ_ARR || wl->n != h->nw) { vh_viol("json_differs_from_iterators|word_count", "JSON lists %d words, the iterators %d", wl ? wl->n : -1, h->nw); vj_free(v); return; }
    for (k = 0; k < h->nw; ++k) {
        const vj_val *w = wl->a[k], *pl = vj_get(w, "w"), *t = vj_get(w, "t"), *b = vj_get(w, "b"), *d = vj_get(w, "d");
        if (!t || t->type != VJ_STR || strcmp(t->s, h->w[k].name) || !b || !d || fabs(b->num - (double)h->w[k].start / frate) > 0.00051 || fabs(d->num - (double)h->w[k].dur / frate) > 0.00051) { vh_viol("json_differs_from_iterators|word", "word %d: JSON %s b=%g d=%g, iterators %s@%d+%d", k, t && t->type == VJ_STR ? t->s : "?", b ? b->num : -1, d ? d->num : -1, h->w[k].name, h->w[k].start, h->w[k].dur); break; }
        if (!pl || pl->type != VJ_ARR || pl->n != h->w[k].nchild) { vh_viol("json_differs_from_iterators|phone_count", "word %d: JSON lists %d phones, the iterators %d", k, pl ? pl->n : -1, h->w[k].nchild); break; }
        for (j = 0; j < pl->n; ++j) {
            const ent *p = &h->p[h->w[k].first_child + j]; const vj_val *pj = pl->a[j], *pt = vj_get(pj, "t"), *pb = vj_get(pj, "b"), *pd = vj_get(pj, "d"), *sl = vj_get(pj, "w");
            if (!pt || pt->type != VJ_STR || strcmp(pt->s, p->name) || !pb || !pd || fabs(pb->num - (double)p->start / frate) > 0.00051 || fabs(pd->num - (double)p->dur / frate) > 0.00051) { vh_viol("json_differs_from_iterators|phone", "word %d phone %d: JSON %s b=%g d=%g, iterators %s@%d+%d", k, j, pt && pt->type == VJ_STR ? pt->s : "?", pb ? pb->num : -1, pd ? pd->num : -1, p->name, p->start, p->dur); goto out; }
            if (level > 1) {
                if (!sl || sl->type != VJ_ARR || sl->n != p->nchild) { vh_viol("json_differs_from_iterators|state_count", "word %d phone %d: JSON lists %d states, the iterators %d", k, j, sl ? sl->n : -1, p->nchild); goto out; }
                for (q = 0; q < sl->n; ++q) { const ent *s = &h->s[p->first_child + q]; const vj_val *sb = vj_get(sl->a[q], "b"), *sd = vj_get(sl->a[q], "d"), *st = vj_get(sl->a[q], "t");
                    if (!st || st->type != VJ_STR || strcmp(st->s, s->name) || !sb || !sd || fabs(sb->num - (double)s->start / frate) > 0.00051 || fabs(sd->num - (double)s->dur / frate) > 0.00051) { vh_viol("json_differs_from_iterators|state", "word %d phone %d state %d differs", k, j, q); goto out; } }
            } else if (sl) { vh_viol("json_differs_from_iterators|unexpected_states", "align_level=1 output lists states"); goto out; }
        }
    }
out:
    vh_count(level > 1 ? "json_state_level_compared" : "json_phone_level_compared", 1);
    vj_free(v);
}

static void observe(ctx *c, int final, const char *when)
{
    vd_result res; alignment_t *al, *al2; hier h; int nwords = 0, k;
    vd_result_get(c->d, &res);
    for (k = 0; k < res.nseg; ++k) if (dict_wordid(c->d->dict, res.seg[k].word) != BAD_S3WID) ++nwords;
    vh_ctx("decoder_alignment");
    TAP.nfr = 0; ssv_senscr_tap_user = &TAP; ssv_senscr_tap = tap_cb;
    al = decoder_alignment(c->d);
    ssv_senscr_tap_user = &TAP1;
    if (!al) {
        if (nwords > 0) vh_viol(final ? "no_alignment_for_a_result_with_words|final" : "no_alignment_for_a_result_with_words|partial", "%s: the segmentation has %d dictionary words (first %s@%d) but decoder_alignment() returned NULL", when, nwords, res.seg[0].word, res.seg[0].sf);
        else vh_count("no_words_no_alignment", 1);
        /* a failed or absent alignment must not be handed out by the next call either */
        al2 = decoder_alignment(c->d);
        if (al2 && nwords == 0) vh_viol("alignment_after_null", "a second call returned an alignment although the first returned NULL and the result has no words");
        vd_result_free(&res); return;
    }
    ++c->alignments;
    if (nwords == 0) { vh_viol("alignment_without_words", "%s: an alignment with %d words is returned for a result without dictionary words", when, alignment_n_words(al)); vd_result_free(&res); return; }
    /* the documentation only promises validity until the next call: the latest object is the one read */
    al2 = decoder_alignment(c->d);
    if (!al2) { vh_viol("second_call_returns_null", "%s: decoder_alignment() returned an alignment, then NULL without new audio", when); vd_result_free(&res); return; }
    vh_count(al2 == al ? "second_call_same_object" : "second_call_new_object", 1);
    al = al2;
    if (hier_read(&h, al) == 0) {
        check_structure(c, &h, &res, when);
        if (c->cfg.compallsen) {
            /* the second pass was just run (not served from the decoder's cache) iff the tap saw its frames */
            int need = h.nw ? h.w[h.nw - 1].start + h.w[h.nw - 1].dur : 0;
            if (TAP.nfr >= need && need > 0) { c->sen = TAP.s; c->nsen = TAP.nsen; c->nfr_sen = TAP.nfr; check_rescoring(c, &h); c->sen = NULL; }
            else vh_count("rescoring_skipped_alignment_served_from_cache", 1);
        }
        check_first_pass(c, &h, &res, when, final);
        if (final || vh_chance(c->r, 0.3)) { check_json(c, &h, 1 + (int)vh_below(c->r, 2)); }
        vh_count(final ? "final_alignments_checked" : "partial_alignments_checked", 1);
        vh_count("alignment_words", h.nw); vh_count("alignment_phones", h.np); vh_count("alignment_states", h.ns);
        vh_max("max_words_in_an_alignment", h.nw);
    }
    hier_free(&h);
    vd_result_free(&res);
}
static void partial_cb(decoder_t *d, void *user, long samples_fed, long frames_returned)
{
    ctx *c = (ctx *)user; char when[80]; (void)d; (void)frames_returned;
    ++c->partials;
    snprintf(when, sizeof(when), "partial result after %ld samples", samples_fed);
    observe(c, 0, when);
}

/* a second utterance on the same decoder, fed frame by frame, asked for its alignment exactly when it has searched as many
 * frames as the previous utterance had in total */
static void stale_probe(ctx *c, vh_rng *r, int prev_frames)
{
    vd_audio b; long off = 0; int asked = 0;
    vd_audio_make(r, c->lang, 0, 0, &b);
    vh_ctx("second_utterance");
    TAP1.nfr = 0; ssv_senscr_tap_user = &TAP1; ssv_senscr_tap = tap_cb;
    if (decoder_start_utt(c->d) < 0) { ssv_senscr_tap = NULL; vd_audio_free(&b); return; }
    while (off < b.n) {
        long n = b.n - off > 160 ? 160 : b.n - off;
        decoder_process_int16(c->d, (int16 *)b.s + off, (size_t)n, 0, 0); off += n;
        if (c->d->acmod->output_frame == prev_frames && !asked) { asked = 1; observe(c, 0, "second utterance, at the frame count of the previous one"); vh_count("stale_alignment_probes", 1); }
    }
    decoder_end_utt(c->d);
    observe(c, 1, "second utterance, final");
    ssv_senscr_tap = NULL;
    vd_audio_free(&b);
}

static void run(long i, vh_rng *r)
{
    ctx c; vd_gram g; vd_audio a; vd_pattern p; vd_runinfo info; char sdesc[300], pdesc[200];
    int lang = vh_chance(r, 0.12) ? VD_FR : VD_EN, beam_mode, prev_frames;
    memset(&c, 0, sizeof(c));
    vd_cfg_default(&c.cfg, lang);
    c.cfg.compallsen = vh_chance(r, 0.6);
    c.cfg.cionly = vh_chance(r, 0.15);
    if (vh_chance(r, 0.1)) c.cfg.cmn = VH_PICK(r, ((const char *[]){ "batch", "none" }));
    c.r = r; c.lang = lang;
    c.d = vd_decoder(&c.cfg);
    if (!c.d) { vh_inconc("decoder_init failed"); return; }
    decoder_set_cmn(c.d, "40,3,-1");
    if (getenv("VH_LIBLOG")) err_set_loglevel(ERR_INFO);
    beam_mode = vh_chance(r, 0.45) ? 2 : vh_chance(r, 0.5) ? 0 : 1;
    vd_search_random(r, &c.sp, beam_mode);
    vd_search_apply(c.d, &c.sp);
    vd_gram_random(r, lang, vh_chance(r, 0.45) ? VG_ALIGN_TEXT : -1, 0.7, &g);
    c.g = &g;
    vd_audio_make(r, lang, vh_chance(r, 0.08) ? 1 : 0, c.sp.beam_mode == 2 ? 24000 : 0, &a);
    c.a = &a;
    vd_pattern_random(r, &p, 1);
    if (p.partial_prob > 0.3) p.partial_prob = 0.3;
    if (p.style == 3) p.partial_prob = 0.02;
    c.exact_domain = (c.sp.beam_mode == 2 && c.cfg.compallsen && c.cfg.ds <= 1);
    vd_search_desc(&c.sp, sdesc, sizeof(sdesc)); vd_pattern_desc(&p, pdesc, sizeof(pdesc));
    vh_desc("%s cmn=%s compallsen=%d cionly=%d | %s | %s | audio: %s | %s\n%s", lang == VD_FR ? "fr-fr" : "en-us", c.cfg.cmn, c.cfg.compallsen, c.cfg.cionly, sdesc, g.desc, a.desc, pdesc, g.text.s);
    if (vd_gram_load(c.d, &g) != 0) { vh_count("grammar_load_failed", 1); vh_inconc("the decoder refused the generated grammar (%s)", g.desc); goto out; }
    TAP1.nfr = 0; ssv_senscr_tap_user = &TAP1; ssv_senscr_tap = tap_cb;
    vd_run(c.d, &a, r, &p, partial_cb, &c, &info);
    ssv_senscr_tap = NULL;
    if (info.failed) { vh_inconc("utterance calls failed (judged by C03)"); goto out; }
    prev_frames = c.d->acmod->output_frame;
    ssv_senscr_tap_user = &TAP1; ssv_senscr_tap = tap_cb;
    observe(&c, 1, "final result");
    ssv_senscr_tap = NULL;
    if (c.alignments && vh_chance(r, 0.2)) stale_probe(&c, r, prev_frames);
    if (c.alignments) vh_nontrivial("%ld/%d", i, c.alignments);
    vh_count(c.exact_domain ? "cases_in_exactness_domain" : "cases_outside_exactness_domain", 1);
    vh_count(vh_path("grammar_%s", vd_gram_kind_name(g.kind)), 1);
    vh_count(p.full_utt ? "pattern_full_utt" : p.no_search_chunks ? "pattern_buffered" : "pattern_streaming", 1);
    vh_count(c.cfg.cionly ? "cionly_cases" : "triphone_cases", 1);
    if (i % 50 == 7) { const char *hy = decoder_hyp(c.d, NULL); vh_sample("%s; %s; %s; %s -> \"%s\": %d alignments checked (%d at partial results)", g.desc, a.desc, pdesc, sdesc, hy ? hy : "(none)", c.alignments, c.partials); }
out:
    vd_audio_free(&a);
    vd_gram_free(&g);
}

static void teardown(void) { vd_drop_decoders(); }
static const vh_harness H = { "h_align", ncases, setup, run, teardown, 300 };
int main(int argc, char **argv) { return vh_main(argc, argv, &H); }
