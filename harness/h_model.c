/* h_model.c -- C17: damaged acoustic-model files are rejected without memory errors.
 * VH_SOURCES: vfsa.c vdec.c
 *
 * Fault enumeration.  A case = (model, file, fault, file-access mode).  The model directory is a
 * scratch copy (symlinks) of a bundled model with exactly one damaged file; decoder_init() must
 * return NULL without a sanitizer report, signal, assertion or exit(); afterwards, in the same
 * process, the intact model must load and decode the bundled recording as usual.
 *
 * File access: hook H3 (ssv_mmio_heap) gives exact-size heap buffers, so AddressSanitizer sees the
 * first byte read past the file; the other half of the cases uses the real mmap path.
 */
#include "vh.h"
#include "vfsa.h"
#include "vdec.h"
#include <unistd.h>
#include <math.h>
#include <sys/stat.h>
#include <soundswallower/err.h>
#include <soundswallower/ssverif.h>
#include <soundswallower/feat.h>

static const char *models[2] = { "en-us", "fr-fr" };
static const char *files[] = { "mdef", "means", "variances", "sendump", "transition_matrices", "feat_params.json", "feature_transform", "mixture_weights" };
#define NFILES 8
static const char *all_files[] = { "mdef", "means", "variances", "sendump", "transition_matrices", "feat_params.json", "noisedict.txt" };

typedef struct fault { int kind; long a; unsigned b; int accept; char desc[120]; char cls[40]; } fault;
enum { F_NONE, F_MISSING, F_EMPTY, F_TRUNC, F_WORD, F_MAGIC, F_CHKSUM, F_HDRLINE, F_BYTE };

typedef struct fileinfo { char *data; size_t n; long hdr_end; /* offset of the first binary byte after the text header / magic */ fault *f; int nf; } fileinfo;
static fileinfo FI[2][NFILES];
static long total_cases, base[2][NFILES];

static long find_hdr_end(const char *d, size_t n, const char *name)
{
    if (!strcmp(name, "mdef")) { /* "BMDF" version(4) hdrlen(4) text */ unsigned hl; if (n < 12) return 12; memcpy(&hl, d + 8, 4); return 12 + (hl < n ? (long)hl : 0); }
    if (!strcmp(name, "sendump")) return 4;
    if (!strcmp(name, "feat_params.json")) return 0;
    { const char *e = NULL; size_t k; for (k = 0; k + 7 <= n; ++k) if (!memcmp(d + k, "endhdr\n", 7)) { e = d + k + 7; break; } return e ? (long)(e - d) : 0; }
}

static void add_fault(fileinfo *fi, int kind, long a, unsigned b, int accept, const char *cls, const char *fmt, ...)
{
    va_list ap; fault *f;
    fi->f = (fault *)realloc(fi->f, sizeof(fault) * (size_t)(fi->nf + 1));
    f = &fi->f[fi->nf++]; memset(f, 0, sizeof(*f));
    f->kind = kind; f->a = a; f->b = b; f->accept = accept; snprintf(f->cls, sizeof(f->cls), "%s", cls);
    va_start(ap, fmt); vsnprintf(f->desc, sizeof(f->desc), fmt, ap); va_end(ap);
}

static int g_tier;
static void add_word_faults(fileinfo *fi, long k, const char *field, int accept)
{
    static const unsigned edge[] = { 0u, 1u, 0xffffffffu, 0x7fffffffu, 0x80000000u, 2u, 0x00010000u, 0x7fc00000u /* NaN */ };
    unsigned orig; int q; char cls[40];
    if (k < 0 || k + 4 > (long)fi->n) return;
    memcpy(&orig, fi->data + k, 4);
    snprintf(cls, sizeof(cls), "field:%s", field);
    for (q = 0; q < 8; ++q) if (edge[q] != orig) add_fault(fi, F_WORD, k, edge[q], accept, cls, "%s (32-bit word at offset %ld, %u) replaced by %u", field, k, orig, edge[q]);
    add_fault(fi, F_WORD, k, orig + 1, accept, cls, "%s (offset %ld, %u) incremented", field, k, orig);
    if (orig) add_fault(fi, F_WORD, k, orig - 1, accept, cls, "%s (offset %ld, %u) decremented", field, k, orig);
    if (orig) add_fault(fi, F_WORD, k, orig * 2, accept, cls, "%s (offset %ld, %u) doubled", field, k, orig);
    { static const int qbits[] = { 0, 3, 7, 12, 15, 16, 20, 23, 24, 25, 27, 29, 30, 31 }; int b;      /* single-bit flips: all 32 in the thorough tier */
      if (g_tier) for (b = 0; b < 32; ++b) add_fault(fi, F_WORD, k, orig ^ (1u << b), accept, cls, "%s (offset %ld, %u) bit %d flipped", field, k, orig, b);
      else for (b = 0; b < (int)(sizeof(qbits) / sizeof(qbits[0])); ++b) add_fault(fi, F_WORD, k, orig ^ (1u << qbits[b]), accept, cls, "%s (offset %ld, %u) bit %d flipped", field, k, orig, qbits[b]); }
    if (__builtin_bswap32(orig) != orig) add_fault(fi, F_WORD, k, __builtin_bswap32(orig), accept, cls, "%s (offset %ld, %u) byte-swapped", field, k, orig);
}

/* accept: 0 = the load must fail; 1 = neutral (may load, must then decode the reference correctly); 2 = not a header field: either outcome, no crash */
static void enumerate(fileinfo *fi, const char *name, int tier, uint64_t seed)
{
    long n = (long)fi->n, he = fi->hdr_end, k, step; vh_rng r; int json = !strcmp(name, "feat_params.json");
    int is_mdef = !strcmp(name, "mdef"), is_dump = !strcmp(name, "sendump"), s3 = !json && !is_mdef && !is_dump;
    int chk = s3 && strstr(fi->data, "chksum0") != NULL && strstr(fi->data, "chksum0") < fi->data + he;
    long counts_end = he;
    vh_rng_init(&r, seed, 4242);
    add_fault(fi, F_NONE, 0, 0, 1, "control", "intact copy (control)");
    add_fault(fi, F_MISSING, 0, 0, json, "missing", "file removed");
    add_fault(fi, F_EMPTY, 0, 0, json, "empty", "file emptied");
    /* header fields, by name */
    if (s3) {
        unsigned nf = 0; int q; static const char *gn[] = { "n_mgau", "n_feat", "n_density" }, *tn[] = { "n_tmat", "n_src", "n_dst", "n_floats" }, *ln[] = { "n_lda", "rows", "cols", "n_floats" };
        if (!strcmp(name, "means") || !strcmp(name, "variances")) {
            memcpy(&nf, fi->data + he + 8, 4); if (nf > 8) nf = 8;
            for (q = 0; q < 3; ++q) add_word_faults(fi, he + 4 + 4 * q, gn[q], 0);
            for (q = 0; q < (int)nf; ++q) add_word_faults(fi, he + 16 + 4 * q, vh_path("veclen%d", q), 0);
            add_word_faults(fi, he + 16 + 4 * nf, "n_floats", 0); counts_end = he + 20 + 4 * nf;
        } else if (!strcmp(name, "transition_matrices")) { for (q = 0; q < 4; ++q) add_word_faults(fi, he + 4 + 4 * q, tn[q], 0); counts_end = he + 20; }
        else if (!strcmp(name, "mixture_weights")) { static const char *wn[] = { "n_sen", "n_feat", "n_comp", "n_floats" }; for (q = 0; q < 4; ++q) add_word_faults(fi, he + 4 + 4 * q, wn[q], 0); counts_end = he + 20; }
        else { for (q = 0; q < 4; ++q) add_word_faults(fi, he + 4 + 4 * q, ln[q], 0); counts_end = he + 20; }
        add_fault(fi, F_WORD, he, 0x44332211u, 0, "magic", "byte-order magic swapped"); add_fault(fi, F_WORD, he, 0xdeadbeefu, 0, "magic", "byte-order magic garbage"); add_fault(fi, F_WORD, he, 0x11223345u, 0, "magic", "byte-order magic incremented");
        if (chk) { add_fault(fi, F_CHKSUM, n - 4, 1, 0, "checksum", "checksum word: lowest bit flipped"); add_fault(fi, F_CHKSUM, n - 1, 0x80, 0, "checksum", "checksum word: highest bit flipped"); }
        add_fault(fi, F_HDRLINE, 0, 0, 0, "text_header", "'endhdr' line removed"); add_fault(fi, F_HDRLINE, 1, 0, 0, "text_header", "first header line ('s3') damaged"); add_fault(fi, F_HDRLINE, 2, 0, 1, "text_header", "version line duplicated");
        /* payload words: with a checksum every one of them must be noticed; without, either outcome */
        for (q = 0; q < (tier ? 40 : 12); ++q) { long o = counts_end + 4 * (long)(vh_next(&r) % (uint64_t)((n - 4 - counts_end) / 4 > 1 ? (n - 4 - counts_end) / 4 : 1)); unsigned v = (q % 3 == 0) ? 0x7fc00000u : (q % 3 == 1) ? 0xff800000u : (unsigned)vh_next(&r);
            unsigned orig; memcpy(&orig, fi->data + o, 4); if (orig != v) add_fault(fi, F_WORD, o, v, chk ? 0 : 2, "payload_word", "payload word at offset %ld replaced by %#x", o, v); }
    } else if (is_mdef) {
        static const char *mn[] = { "n_ciphone", "n_phone", "n_emit_state", "n_ci_sen", "n_sen", "n_tmat", "n_sseq", "n_ctx", "n_cd_tree", "sil" }; int q;
        add_word_faults(fi, 4, "version", 0); add_word_faults(fi, 8, "descriptor_length", 0);
        for (q = 0; q < 10; ++q) add_word_faults(fi, he + 4 * q, mn[q], q == 9 ? 1 : 0);   /* the stored silence id is recomputed from the names by the loader */
        counts_end = he + 40;
        add_fault(fi, F_WORD, 0, 0x46444d42u ^ 0xffu, 0, "magic", "BMDF magic damaged"); add_fault(fi, F_WORD, 0, 0x424d4446u, 0, "magic", "BMDF magic byte-swapped");
        { /* the word holding the length of the senone-sequence table (after the phone table) */
          unsigned nci, nph, ncd; long o = he + 40; int c; memcpy(&nci, fi->data + he, 4); memcpy(&nph, fi->data + he + 4, 4); memcpy(&ncd, fi->data + he + 32, 4);
          for (c = 0; c < (int)nci && o < n; ++c) o += (long)strlen(fi->data + o) + 1;
          o = he + 40 + (((o - he - 40) + 3) & ~3L); o += 8L * ncd + 12L * nph;
          if (o + 4 <= n) { add_word_faults(fi, o, "sseq_size", 0); for (k = o - 6; k <= o + 10; ++k) add_fault(fi, F_TRUNC, k, 0, 0, "truncate_section_edge", "truncated to %ld of %ld bytes (end of the phone table +/-)", k, n); }
          /* tables: either outcome, no crash */
          for (q = 0; q < (tier ? 60 : 20); ++q) { long o2 = he + 40 + 4 * (long)(vh_next(&r) % (uint64_t)((n - he - 44) / 4)); unsigned v = (q & 1) ? 0xffffffffu : (unsigned)vh_next(&r); add_fault(fi, F_WORD, o2, v, 2, "payload_word", "table word at offset %ld replaced by %#x", o2, v); } }
    } else if (is_dump) {
        long o = 0; int idx = 0; unsigned L;
        for (;;) { if (o + 4 > n) break; memcpy(&L, fi->data + o, 4); add_word_faults(fi, o, vh_path("string_length_%d", idx), 0);
            if (L == 0) break;
            if (L > 6 && (!strncmp(fi->data + o + 4, "cluster_count ", 14) || !strncmp(fi->data + o + 4, "feature_count ", 14))) { add_fault(fi, F_BYTE, o + 4 + 14, '0' ^ '7', 0, "field:header_text", "digit in '%s' changed", fi->data + o + 4); add_fault(fi, F_BYTE, o + 4 + 14, '0' ^ '-', fi->data[o + 4 + 14] == '0' ? 1 : 0, "field:header_text", "digit in '%s' replaced by '-' (reads as 0)", fi->data + o + 4); }
            o += 4 + (long)L; ++idx; }
        add_word_faults(fi, o + 4, "rows", 0); add_word_faults(fi, o + 8, "columns", 0); counts_end = o + 12;
        { int q; for (q = 0; q < (tier ? 30 : 10); ++q) { long o2 = counts_end + (long)(vh_next(&r) % (uint64_t)(n - counts_end - 4)); add_fault(fi, F_WORD, o2, 0xffffffffu, 2, "payload_word", "weight bytes at offset %ld replaced by 0xff", o2); } }
    }
    /* truncation at every byte of the header region (every 5th in the quick tier, boundaries always) */
    { long hreg = counts_end + 32 < n ? counts_end + 32 : n - 1; step = tier ? 1 : (json ? 3 : 5);
      for (k = 1; k <= hreg; ++k) if (k % step == 0 || k <= 8 || labs(k - he) <= 4 || labs(k - counts_end) <= 4 || k == hreg) add_fault(fi, F_TRUNC, k, 0, 0, "truncate_header", "truncated to %ld of %ld bytes (header region)", k, n);
      counts_end = hreg; }
    /* payload: the checksum, the middle, page boundaries and random offsets */
    if (!json) {
        long pts[120]; int np = 0, q;
        pts[np++] = n - 1; pts[np++] = n - 2; pts[np++] = n - 3; pts[np++] = n - 4; pts[np++] = n - 5; pts[np++] = n - 8; pts[np++] = n / 2; pts[np++] = n / 3; pts[np++] = counts_end + 1; pts[np++] = counts_end + 64;
        pts[np++] = (n / 4096) * 4096; pts[np++] = (n / 4096) * 4096 - 1; pts[np++] = (n / 4096) * 4096 + 1; pts[np++] = 4096; pts[np++] = 8192; pts[np++] = 4095; pts[np++] = 4097;  /* page boundaries: an over-read faults in mmap mode */
        for (q = 0; q < (tier ? 90 : 16); ++q) pts[np++] = counts_end + 1 + (long)(vh_next(&r) % (uint64_t)(n - counts_end - 1 > 1 ? n - counts_end - 1 : 1));
        for (q = 0; q < np; ++q) if (pts[q] > counts_end && pts[q] < n) add_fault(fi, F_TRUNC, pts[q], 0, 0, "truncate_payload", "truncated to %ld of %ld bytes", pts[q], n);
    } else {
        add_fault(fi, F_BYTE, 0, '{' ^ '[', 0, "json_damaged", "opening brace replaced");
        add_fault(fi, F_HDRLINE, 3, 0, 0, "json_damaged", "a value replaced by garbage");
    }
}

/* Neither bundled model ships a mixture_weights file (they use the senone dump), but the statement names it: an equivalent
 * file is derived from the fr-fr senone dump (same quantised weights, written as probabilities) so that read_mixw /
 * senone_mixw_read see a well-formed file whose damaged versions can be enumerated. */
static char *make_mixture_weights(int m, size_t *out_n)
{
    size_t dn = 0; unsigned char *d = (unsigned char *)vh_read_file(vh_path("%s/model/%s/sendump", vh_repo, models[m]), &dn), *w;
    long o = 0; unsigned L; int n_feat = 0, r, c, f, i, sidx; char *out, *p; uint32_t sum = 0, v; float fl; static const char hdr[] = "s3\nversion 1.0\nchksum0 yes\nendhdr\n";
    if (!d) return NULL;
    for (;;) { memcpy(&L, d + o, 4); o += 4; if (L == 0) break; if (!strncmp((char *)d + o, "feature_count ", 14)) n_feat = atoi((char *)d + o + 14); o += (long)L; }
    memcpy(&r, d + o, 4); memcpy(&c, d + o + 4, 4); o += 8; w = d + o;
    if (n_feat <= 0 || r <= 0 || c <= 0 || (size_t)o + (size_t)n_feat * (size_t)r * (size_t)c > dn) { free(d); return NULL; }
    *out_n = strlen(hdr) + 4 + 16 + (size_t)c * (size_t)n_feat * (size_t)r * 4 + 4;
    out = (char *)malloc(*out_n + 16); p = out;
    memcpy(p, hdr, strlen(hdr)); p += strlen(hdr);
    v = 0x11223344u; memcpy(p, &v, 4); p += 4;
#define PUT32(x) do { v = (uint32_t)(x); memcpy(p, &v, 4); p += 4; sum = ((sum << 20) | (sum >> 12)) + v; } while (0)
    PUT32(c); PUT32(n_feat); PUT32(r); PUT32((uint32_t)c * (uint32_t)n_feat * (uint32_t)r);
    for (sidx = 0; sidx < c; ++sidx) for (f = 0; f < n_feat; ++f) for (i = 0; i < r; ++i) {
        unsigned q = w[((size_t)f * (size_t)r + (size_t)i) * (size_t)c + (size_t)sidx];
        fl = (float)exp(-(double)(q << 10) * log(1.0001)); memcpy(&v, &fl, 4); memcpy(p, &v, 4); p += 4; sum = ((sum << 20) | (sum >> 12)) + v;
    }
    memcpy(p, &sum, 4);
    free(d);
    return out;
}

static long ncases(int tier, long req)
{
    int m, f; long t = 0;
    (void)req;
    g_tier = tier;
    vd_init();
    for (m = 0; m < 2; ++m) for (f = 0; f < NFILES; ++f) {
        fileinfo *fi = &FI[m][f]; const char *path = (f == 6) ? vh_path("%s/tests/data/feature_transform", vh_repo) : vh_path("%s/model/%s/%s", vh_repo, models[m], files[f]);
        if (f == 7 && m == 0) { base[m][f] = t; continue; }     /* the derived mixture_weights file: fr-fr only (3 MB instead of 8) */
        if (!fi->data) { fi->data = (f == 7) ? make_mixture_weights(m, &fi->n) : (char *)vh_read_file(path, &fi->n); if (fi->data) { fi->hdr_end = find_hdr_end(fi->data, fi->n, files[f]); if (!(f == 6 && m == 1)) enumerate(fi, files[f], tier, 99 + (uint64_t)(m * 16 + f)); } }
        base[m][f] = t; t += (tier ? 2L : 1L) * fi->nf;      /* thorough: every fault heap-backed and mmap; quick: one of the two, alternating (VERIF_SEED flips which) */
    }
    total_cases = t;
    return t;
}

static void setup(void) { vh_log_sink(ERR_WARN); }

static void apply_fault(const fileinfo *fi, const fault *ft, char **out, size_t *outn, int *remove_file)
{
    char *d = (char *)malloc(fi->n + 64); size_t n = fi->n;
    memcpy(d, fi->data, fi->n); *remove_file = 0;
    switch (ft->kind) {
    case F_NONE: break;
    case F_MISSING: *remove_file = 1; break;
    case F_EMPTY: n = 0; break;
    case F_TRUNC: n = (size_t)ft->a; break;
    case F_WORD: memcpy(d + ft->a, &ft->b, 4); break;
    case F_MAGIC: memcpy(d + ft->a, &ft->b, 4); break;
    case F_CHKSUM: d[ft->a] ^= (char)ft->b; break;
    case F_BYTE: d[ft->a] ^= (char)ft->b; break;
    case F_HDRLINE:
        if (ft->a == 0) { char *e = strstr(d, "endhdr\n"); if (e) memset(e, ' ', 6); }
        else if (ft->a == 1) d[0] = 'x';
        else if (ft->a == 2) { char *v = strstr(d, "version"); if (v) { char *nl = strchr(v, '\n'); size_t L = (size_t)(nl - v) + 1, off = (size_t)(v - d); if (L < 40) { memmove(d + off + L, d + off, n - off); memcpy(d + off, fi->data + off, L); n += L; } } }
        else { char *v = strstr(d, "\"nfilt\": "); if (v) memcpy(v + 9, "x1", 2); }
        break;
    }
    *out = d; *outn = n;
}

static decoder_t *try_init(const char *dir, int m, int with_lda, int mmap)
{
    config_t *cf = config_init(NULL);
    config_set_str(cf, "hmm", dir);
    config_set_str(cf, "loglevel", "WARN");
    config_set_str(cf, "dict", m == 0 ? vh_path("%s/tests/data/turtle.dic", vh_repo) : vh_path("%s/model/fr-fr/dict.txt", vh_repo));
    config_set_bool(cf, "mmap", mmap);
    (void)with_lda;
    vh_ctx("decoder_init");
    return decoder_init(cf);
}

static int reference_ok(decoder_t *d, int m)
{
    long nr; const int16_t *rec; const char *h; int32 sc;
    rec = vd_recording(m == 0 ? 0 : 1, &nr);
    if (decoder_set_jsgf_string(d, m == 0 ? "#JSGF V1.0; grammar g; public <a> = go ( forward | backward ) ( ten | two ) ( meters | meter );" : "#JSGF V1.0; grammar g; public <a> = ( avance | recule ) de ( dix | deux ) ( mètres | mètre );") != 0) return 0;
    decoder_start_utt(d); decoder_process_int16(d, (int16 *)rec, (size_t)nr, 0, 1); decoder_end_utt(d);
    h = decoder_hyp(d, &sc);
    return h && !strcmp(h, m == 0 ? "go forward ten meters" : "avance de dix mètres");
}

/* the feature transform is loaded by feat_init(); a model that accepts the bundled one does not exist, so that entry point is driven directly */
static int try_feat(const char *ldapath, int use)
{
    config_t *cf = config_init(NULL); feat_t *fcb; int ok;
    config_set_str(cf, "loglevel", "WARN"); config_set_str(cf, "feat", "1s_c_d_dd"); config_set_str(cf, "cmn", "none");
    config_set_str(cf, "lda", ldapath); config_set_int(cf, "ldadim", 29);
    vh_ctx("feat_init");
    fcb = feat_init(cf); ok = fcb != NULL;
    if (fcb && use) {   /* an accepted transform is applied to a few frames, under the sanitizer */
        mfcc_t *mfc[12], buf[12][13], ***feat; int t, k, nfr = 12;
        for (t = 0; t < 12; ++t) { for (k = 0; k < 13; ++k) buf[t][k] = (mfcc_t)(0.1f * (float)((t * 7 + k * 3) % 11) - 0.5f); mfc[t] = buf[t]; }
        feat = feat_array_alloc(fcb, 12);
        vh_ctx("feat_s2mfc2feat_live");
        feat_s2mfc2feat_live(fcb, mfc, &nfr, 1, 1, feat);
        feat_array_free(feat);
    }
    if (fcb) feat_free(fcb);
    config_free(cf);
    return ok;
}

static void run(long i, vh_rng *r)
{
    int m = 0, f = 0, heap, k, remove_file, is_lda, loaded, ref_ok = 1; long off; const fileinfo *fi; const fault *ft; char *data; size_t n; char dir[600]; decoder_t *d = NULL;
    for (m = 1; m >= 0; --m) { for (f = NFILES - 1; f >= 0; --f) if (i >= base[m][f] && FI[m][f].nf > 0) break; if (f >= 0) break; }
    if (m < 0 || f < 0) { vh_inconc("no fault for this index"); return; }
    fi = &FI[m][f]; off = i - base[m][f];
    if (vh_tier) { heap = (int)(off & 1); ft = &fi->f[off >> 1]; } else { heap = (int)((off + (long)vh_seed) & 1); ft = &fi->f[off]; }
    is_lda = (f == 6);
    vh_class(vh_path("%s:%s", files[f], ft->cls));
    vh_desc("%s/%s: %s; %s", models[m], files[f], ft->desc, heap ? "exact-size heap buffers (hook)" : "real mmap");
    /* scratch model directory: symlinks to the intact files, the damaged one written out */
    snprintf(dir, sizeof(dir), "%s/m%ld", vh_tmpdir(), i);
    mkdir(dir, 0777);
    for (k = 0; k < 7; ++k) { if (!strcmp(all_files[k], files[f]) || (f == 7 && !strcmp(all_files[k], "sendump"))) continue; if (symlink(vh_path("%s/model/%s/%s", vh_repo, models[m], all_files[k]), vh_path("%s/%s", dir, all_files[k])) != 0) { /* ignore */ } }
    apply_fault(fi, ft, &data, &n, &remove_file);
    if (!remove_file) vh_write_file(vh_path("%s/%s", dir, files[f]), data, n);
    free(data);
    ssv_mmio_heap = heap;
    if (is_lda) loaded = try_feat(vh_path("%s/feature_transform", dir), 1);
    else { d = try_init(dir, m, 0, vh_chance(r, 0.5)); loaded = d != NULL; }
    ssv_mmio_heap = 0;
    if (d && (ft->accept != 0)) { vh_ctx("decode_with_accepted_model"); ref_ok = reference_ok(d, m); }
    if (loaded) {
        vh_count(vh_path("loaded_%s", ft->cls), 1);
        if (ft->accept == 0) vh_viol(vh_path("damaged_model_accepted|%s:%s", files[f], ft->cls), "initialisation succeeded although %s/%s has: %s", models[m], files[f], ft->desc);
        else if (ft->accept == 1 && !ref_ok) vh_viol(vh_path("neutral_fault_breaks_decoding|%s:%s", files[f], ft->cls), "%s loaded but decodes wrongly", ft->desc);
    } else {
        vh_count(vh_path("refused_%s", ft->cls), 1);
        if (ft->kind == F_NONE) vh_viol(vh_path("control_refused|%s", files[f]), "an intact copy of %s/%s is refused: refusals of its damaged versions prove nothing", models[m], files[f]);
    }
    if (d) { vh_ctx("decoder_free"); decoder_free(d); }
    /* the intact model afterwards, in the same process (every 16th case, and after every acceptance) */
    if (loaded || (i % 16) == 5) {
        decoder_t *ok; snprintf(dir, sizeof(dir), "%s/model/%s", vh_repo, models[m]);
        ssv_mmio_heap = heap; ok = try_init(dir, m, 0, 1); ssv_mmio_heap = 0;
        if (!ok) vh_viol("intact_model_fails_afterwards", "the intact %s model does not load after the damaged attempt", models[m]);
        else { vh_ctx("reference_decode"); if (!reference_ok(ok, m)) vh_viol("intact_model_decodes_wrongly_afterwards", "reference utterance not recognised after a damaged load attempt"); decoder_free(ok); vh_count("intact_reloads_checked", 1); }
    }
    /* clean the scratch directory */
    for (k = 0; k < 7; ++k) unlink(vh_path("%s/m%ld/%s", vh_tmpdir(), i, all_files[k]));
    unlink(vh_path("%s/m%ld/feature_transform", vh_tmpdir(), i)); unlink(vh_path("%s/m%ld/mixture_weights", vh_tmpdir(), i)); rmdir(vh_path("%s/m%ld", vh_tmpdir(), i));
    vh_count(heap ? "cases_heap_backed" : "cases_mmap", 1);
    vh_count(vh_path("file_%s", files[f]), 1);
    vh_nontrivial("%d/%d/%ld", m, f, off);
    if (i % 400 == 17) vh_sample("%s/%s: %s (%s) -> %s", models[m], files[f], ft->desc, heap ? "heap" : "mmap", loaded ? "LOADED" : "refused");
}

static const vh_harness H = { "h_model", ncases, setup, run, NULL, 120 };
int main(int argc, char **argv) { return vh_main(argc, argv, &H); }
