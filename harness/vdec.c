/* vdec.c -- shared decode-scenario generator (see vdec.h) */
#include "vdec.h"
#include <math.h>
#include <ctype.h>
#include <soundswallower/s3file.h>
#include <soundswallower/err.h>
#include <soundswallower/ckd_alloc.h>

/* ================= lexicon ================= */
static vd_lex lex[2]; static int lex_loaded[2];
static const char *lang_dir[2] = { "en-us", "fr-fr" };

const vd_lex *vd_lexicon(int lang)
{
    if (!lex_loaded[lang]) {
        size_t n = 0; char *txt = (char *)vh_read_file(vh_path("%s/model/%s/dict.txt", vh_repo, lang_dir[lang]), &n), *p, *e;
        vd_lex *lx = &lex[lang]; int cap = 0;
        lex_loaded[lang] = 1;
        if (!txt) return lx;
        for (p = txt; p < txt + n; p = e + 1) {
            char *sp;
            e = (char *)memchr(p, '\n', (size_t)(txt + n - p)); if (!e) e = txt + n;
            *e = 0;
            if (e > p && e[-1] == '\r') e[-1] = 0;
            sp = p; while (*sp && !isspace((unsigned char)*sp)) ++sp;
            if (*sp == 0 || sp == p) continue;
            *sp++ = 0; while (*sp && isspace((unsigned char)*sp)) ++sp;
            if (!*sp) continue;
            if (!strncmp(p, ";;", 2) || !strncmp(p, "##", 2)) continue;   /* comment lines of the dictionary format */
            if (lx->n == cap) { cap = cap ? cap * 2 : 65536; lx->word = (char **)realloc(lx->word, sizeof(char *) * (size_t)cap); lx->pron = (char **)realloc(lx->pron, sizeof(char *) * (size_t)cap); }
            lx->word[lx->n] = p; lx->pron[lx->n] = sp; ++lx->n;
        }
        /* txt intentionally kept: the entries point into it */
    }
    return &lex[lang];
}
int vd_lex_find(const vd_lex *lx, const char *word)
{
    /* dict.txt is sorted bytewise for the most part, but do not rely on it */
    int i;
    for (i = 0; i < lx->n; ++i) if (lx->word[i][0] == word[0] && strcmp(lx->word[i], word) == 0) return i;
    return -1;
}
int vd_lex_nphones(const char *pron)
{
    int n = 0; const char *p = pron;
    while (*p) { while (*p && isspace((unsigned char)*p)) ++p; if (!*p) break; ++n; while (*p && !isspace((unsigned char)*p)) ++p; }
    return n;
}
void vd_base_word(const char *word, char *out, size_t n)
{
    size_t L;
    snprintf(out, n, "%s", word);
    L = strlen(out);
    if (L > 3 && out[L - 1] == ')') {
        char *p = strrchr(out, '(');
        if (p && p != out) { char *q = p + 1; int digits = 0; while (*q >= '0' && *q <= '9') { ++q; ++digits; } if (digits && q == out + L - 1) *p = 0; }
    }
}
int vd_is_filler_word(const char *w)
{
    size_t L = strlen(w);
    if (L < 2) return 0;
    return (w[0] == '<' && w[L - 1] == '>') || (w[0] == '[' && w[L - 1] == ']') || (w[0] == '+' && w[L - 1] == '+');
}

/* ================= model tables ================= */
#include <soundswallower/bin_mdef.h>
#include <soundswallower/mdef.h>
static int *tri_byb[2][256], tri_nb[2][256], tri_built[2];
typedef struct tkey { int b, l, r, pos, pid; } tkey;
#define TCACHE 16384
static tkey *tcache[2]; static int tcache_n[2];
static int tri_lookup(bin_mdef_t *m, int lang, int b, int l, int r, int pos)
{
    int k;
    for (k = 0; k < tri_nb[lang][b]; ++k) { int p = tri_byb[lang][b][k]; const mdef_entry_t *e = &m->phone[p]; if (e->info.cd.wpos == pos && e->info.cd.ctx[1] == l && e->info.cd.ctx[2] == r) return p; }
    return -1;
}
int vd_triphone(bin_mdef_t *m, int lang, int b, int l, int r, int pos)
{
    int sil = m->sil, k, q, p, l2, r2, order[4], no = 0, l0 = l, r0 = r;
    if (!tri_built[lang]) {
        int pid; tri_built[lang] = 1;
        for (pid = m->n_ciphone; pid < m->n_phone; ++pid) ++tri_nb[lang][m->phone[pid].info.cd.ctx[0]];
        for (k = 0; k < m->n_ciphone && k < 256; ++k) { tri_byb[lang][k] = (int *)malloc(sizeof(int) * (size_t)(tri_nb[lang][k] + 1)); tri_nb[lang][k] = 0; }
        for (pid = m->n_ciphone; pid < m->n_phone; ++pid) { int bb = m->phone[pid].info.cd.ctx[0]; tri_byb[lang][bb][tri_nb[lang][bb]++] = pid; }
        tcache[lang] = (tkey *)malloc(sizeof(tkey) * TCACHE);
    }
    for (k = 0; k < tcache_n[lang]; ++k) { const tkey *t = &tcache[lang][k]; if (t->b == b && t->l == l && t->r == r && t->pos == pos) return t->pid; }
    if (sil >= 0 && m->phone[l].info.ci.filler) l = sil;
    if (sil >= 0 && m->phone[r].info.ci.filler) r = sil;
    order[no++] = pos; for (q = 0; q < N_WORD_POSN; ++q) if (q != pos) order[no++] = q;
    p = -1;
    for (q = 0; q < no && p < 0; ++q) p = tri_lookup(m, lang, b, l, r, order[q]);
    if (p < 0 && sil >= 0) {
        l2 = l; r2 = r;
        if (pos == WORD_POSN_BEGIN || pos == WORD_POSN_SINGLE) l2 = sil;
        if (pos == WORD_POSN_END || pos == WORD_POSN_SINGLE) r2 = sil;
        if (l2 != l || r2 != r) for (q = 0; q < no && p < 0; ++q) p = tri_lookup(m, lang, b, l2, r2, order[q]);
    }
    if (p < 0) p = b;
    if (tcache_n[lang] < TCACHE) { tkey *t = &tcache[lang][tcache_n[lang]++]; t->b = b; t->l = l0; t->r = r0; t->pos = pos; t->pid = p; }
    return p;
}

/* ================= audio ================= */
static int16_t *rec[3]; static long nrec[3]; static int inited;
void vd_init(void)
{
    size_t n = 0; float *f; long k;
    if (inited) return;
    inited = 1;
    rec[0] = (int16_t *)vh_read_file(vh_path("%s/tests/data/goforward.raw", vh_repo), &n); nrec[0] = (long)(n / 2);
    rec[1] = (int16_t *)vh_read_file(vh_path("%s/tests/data/goforward_fr.raw", vh_repo), &n); nrec[1] = (long)(n / 2);
    f = (float *)vh_read_file(vh_path("%s/tests/data/pizza-float32.raw", vh_repo), &n);
    if (f) { nrec[2] = (long)(n / 4); rec[2] = (int16_t *)malloc(sizeof(int16_t) * (size_t)(nrec[2] + 1)); for (k = 0; k < nrec[2]; ++k) { float v = f[k] * 32768.0f; rec[2][k] = (int16_t)(v > 32767.f ? 32767 : v < -32768.f ? -32768 : v); } free(f); }
}
const int16_t *vd_recording(int which, long *n) { vd_init(); *n = nrec[which]; return rec[which]; }

static void add_noise(vh_rng *r, int16_t *s, long n, int amp)
{
    long j; for (j = 0; j < n; ++j) { long v = s[j] + vh_range(r, -amp, amp); s[j] = (int16_t)(v > 32767 ? 32767 : v < -32768 ? -32768 : v); }
}
void vd_audio_make(vh_rng *r, int lang, int kind, long max_samples, vd_audio *out)
{
    int which, k; long n, off = 0, j; const int16_t *src;
    vd_init();
    memset(out, 0, sizeof(*out));
    out->samprate = 16000;
    if (kind < 0) kind = vh_chance(r, 0.2) ? 1 : 0;
    if (kind == 1) {
        /* adversarial signals */
        n = VH_PICK(r, ((long[]){ 0, 1, 100, 399, 410, 1000, 4000, 16000, 48000, 80000 }));
        if (vh_chance(r, 0.3)) n = vh_range(r, 0, 60000);
        if (max_samples > 0 && n > max_samples) n = max_samples;
        out->s = (int16_t *)calloc((size_t)n + 1, sizeof(int16_t)); out->n = n;
        k = (int)vh_below(r, 8);
        switch (k) {
        case 0: snprintf(out->desc, sizeof(out->desc), "digital silence, %ld samples", n); break;
        case 1: for (j = 0; j < n; ++j) out->s[j] = (int16_t)vh_range(r, -1, 1); snprintf(out->desc, sizeof(out->desc), "+-1 LSB noise, %ld samples", n); break;
        case 2: { int per = vh_range(r, 2, 400); for (j = 0; j < n; ++j) out->s[j] = (int16_t)(((j / per) & 1) ? 32767 : -32768); snprintf(out->desc, sizeof(out->desc), "full-scale square wave period %d, %ld samples", 2 * per, n); break; }
        case 3: if (n) out->s[vh_below(r, (uint32_t)n)] = (int16_t)(vh_chance(r, 0.5) ? 32767 : -32768); snprintf(out->desc, sizeof(out->desc), "single impulse in silence, %ld samples", n); break;
        case 4: { int dc = VH_PICK(r, ((int[]){ 32767, -32768, 1000, -1 })); for (j = 0; j < n; ++j) out->s[j] = (int16_t)dc; snprintf(out->desc, sizeof(out->desc), "DC %d, %ld samples", dc, n); break; }
        case 5: { int amp = VH_PICK(r, ((int[]){ 32767, 3000, 100, 10 })); for (j = 0; j < n; ++j) out->s[j] = (int16_t)vh_range(r, -amp - 1, amp); snprintf(out->desc, sizeof(out->desc), "white noise amplitude %d, %ld samples", amp, n); break; }
        case 6: { src = rec[lang == VD_FR ? 1 : 0]; for (j = 0; j < n; ++j) { long v = (long)src[j % nrec[lang == VD_FR ? 1 : 0]] * 40; out->s[j] = (int16_t)(v > 32767 ? 32767 : v < -32768 ? -32768 : v); } snprintf(out->desc, sizeof(out->desc), "speech x40 hard-clipped, %ld samples", n); break; }
        default: for (j = 0; j < n; ++j) out->s[j] = (int16_t)(20000.0 * sin(j * 0.001 * (1 + j * 0.0001))); snprintf(out->desc, sizeof(out->desc), "chirp, %ld samples", n); break;
        }
        return;
    }
    which = lang == VD_FR ? 1 : (vh_chance(r, 0.8) ? 0 : 2);
    src = rec[which];
    if (!src || nrec[which] == 0) { out->s = (int16_t *)calloc(16001, sizeof(int16_t)); out->n = 16000; snprintf(out->desc, sizeof(out->desc), "recording missing: 1 s silence"); return; }
    k = (int)vh_below(r, 10);
    if (k < 4) { off = 0; n = nrec[which]; }                                        /* whole recording */
    else if (k < 7) { off = (long)vh_below(r, (uint32_t)(nrec[which] / 2)); n = vh_range(r, 1, (int)(nrec[which] - off)); }  /* excerpt */
    else if (k < 8) { off = 0; n = VH_PICK(r, ((long[]){ 1, 160, 409, 410, 411, 570, 730, 1200, 1370, 1530, 2048, 4000 })); }   /* a few frames */
    else { off = 0; n = nrec[which]; }
    if (max_samples > 0 && n > max_samples) n = max_samples;
    out->s = (int16_t *)calloc((size_t)n + 48001, sizeof(int16_t)); out->n = n;
    memcpy(out->s, src + off, sizeof(int16_t) * (size_t)n);
    snprintf(out->desc, sizeof(out->desc), "recording %d [%ld,+%ld)", which, off, n);
    if (k == 8) { for (j = 0; j < n / 2; ++j) { int16_t t = out->s[j]; out->s[j] = out->s[n - 1 - j]; out->s[n - 1 - j] = t; } strncat(out->desc, " reversed", sizeof(out->desc) - strlen(out->desc) - 1); }
    if (k == 9) { long pad = vh_range(r, 1600, 32000); if (max_samples > 0 && n + pad > max_samples) { if (n > max_samples / 2) n = max_samples / 2; pad = max_samples - n; out->n = n; } memmove(out->s + pad, out->s, sizeof(int16_t) * (size_t)n); memset(out->s, 0, sizeof(int16_t) * (size_t)pad); out->n = n + pad; strncat(out->desc, " after leading silence", sizeof(out->desc) - strlen(out->desc) - 1); }
    if (vh_chance(r, 0.2)) { int amp = VH_PICK(r, ((int[]){ 20, 300, 3000 })); add_noise(r, out->s, out->n, amp); snprintf(out->desc + strlen(out->desc), sizeof(out->desc) - strlen(out->desc), " +noise%d", amp); }
    if (vh_chance(r, 0.1)) { int g = vh_range(r, 2, 8); for (j = 0; j < out->n; ++j) { long v = (long)out->s[j] * g; out->s[j] = (int16_t)(v > 32767 ? 32767 : v < -32768 ? -32768 : v); } snprintf(out->desc + strlen(out->desc), sizeof(out->desc) - strlen(out->desc), " gain%d(clipped)", g); }
}
void vd_audio_free(vd_audio *a) { free(a->s); a->s = NULL; a->n = 0; }

/* ================= decoders ================= */
const char *vd_loglevel = "FATAL";
void vd_cfg_default(vd_cfg *c, int lang) { memset(c, 0, sizeof(*c)); c->lang = lang; c->samprate = 16000; c->cmn = "live"; c->compallsen = 0; c->frate = 100; c->cionly = 0; c->ds = 1; }
/* Neither bundled model has skip transitions, but the library supports the Bakis topology (and the statement of C02 speaks of the model's
 * transition matrices): a copy of the model's file with skip arcs 0->2 and 1->exit at half the weight of the regular arcs, valid header and
 * checksum.  The loader re-normalises the rows. */
static const char *vd_skip_tmat(int lang, int mode)
{
    static char path2[3][2][600]; char (*path)[600] = path2[mode]; size_t n = 0; unsigned char *d; char *e; uint32_t nt, ns, nd, cnt, sum = 0, v; size_t off, k; float *f;
    if (path[lang][0]) return path[lang];
    d = (unsigned char *)vh_read_file(vh_path("%s/model/%s/transition_matrices", vh_repo, lang_dir[lang]), &n);
    if (!d) return NULL;
    e = strstr((char *)d, "endhdr\n"); if (!e) { free(d); return NULL; }
    off = (size_t)(e - (char *)d) + 7 + 4;      /* header, byte-order magic */
    memcpy(&nt, d + off, 4); memcpy(&ns, d + off + 4, 4); memcpy(&nd, d + off + 8, 4); memcpy(&cnt, d + off + 12, 4);
    if (ns != 3 || nd != 4 || cnt != nt * ns * nd || off + 16 + (size_t)cnt * 4 + 4 > n) { free(d); return NULL; }
    f = (float *)(d + off + 16);
    /* mode 1: every matrix gets both skip arcs.  mode 2: the topology differs from matrix to matrix (none / both / only 0->2 / only
     * 1->exit, with different weights), and matrix 0 keeps the plain left-to-right shape: nothing may be decided from one matrix for all */
    for (k = 0; k < nt; ++k) {
        float *m = f + k * 12; unsigned sel = mode == 1 ? 1 : (k == 0 ? 0 : (unsigned)((k * 2654435761u) >> 13) & 3); float wgt = mode == 1 ? 0.5f : 0.25f + 0.25f * (float)(k % 4);
        if (sel == 1 || sel == 2) m[0 * 4 + 2] = wgt * m[0 * 4 + 1];
        if (sel == 1 || sel == 3) m[1 * 4 + 3] = wgt * m[1 * 4 + 2];
    }
    for (k = 0; k < 4 + (size_t)cnt; ++k) { memcpy(&v, d + off + 4 * k, 4); sum = ((sum << 20) | (sum >> 12)) + v; }
    memcpy(d + off + 16 + (size_t)cnt * 4, &sum, 4);
    snprintf(path[lang], sizeof(path[lang]), "%s/tmat-skip%d-%s", vh_tmpdir(), mode, lang_dir[lang]);
    vh_write_file(path[lang], d, n); free(d);
    return path[lang];
}
config_t *vd_make_config(const vd_cfg *c)
{
    config_t *cf = config_init(NULL);
    config_set_str(cf, "hmm", vh_path("%s/model/%s", vh_repo, lang_dir[c->lang]));
    config_set_str(cf, "loglevel", vd_loglevel);
    config_set_int(cf, "samprate", c->samprate);
    if (c->cmn) {
        /* the model's feat_params.json is parsed AFTER the user's settings and overrides them, so the only way
         * to choose the normalisation mode is a feature-parameter file of our own (a copy with "cmn" replaced) */
        size_t n = 0; char *fp = (char *)vh_read_file(vh_path("%s/model/%s/feat_params.json", vh_repo, lang_dir[c->lang]), &n);
        if (fp) {
            char *q = strstr(fp, "\"cmn\""); vh_sb sb; vh_sb_init(&sb);
            if (q) { char *e = strchr(q, ','); if (!e) e = strchr(q, '}'); vh_sb_write(&sb, fp, (size_t)(q - fp)); vh_sb_printf(&sb, "\"cmn\": \"%s\"", c->cmn); vh_sb_write(&sb, e, strlen(e)); }
            else vh_sb_write(&sb, fp, n);
            { char *path = vh_path("%s/featparams-%s-%s.json", vh_tmpdir(), lang_dir[c->lang], c->cmn); vh_write_file(path, sb.s, sb.n); config_set_str(cf, "featparams", path); }
            vh_sb_free(&sb); free(fp);
        }
        config_set_str(cf, "cmn", c->cmn);
    }
    config_set_bool(cf, "compallsen", c->compallsen);
    if (c->frate != 100) config_set_int(cf, "frate", c->frate);
    if (c->cionly) config_set_bool(cf, "cionly", 1);
    if (c->ds > 1) config_set_int(cf, "ds", c->ds);
    if (c->skip_tmat) { const char *tp = vd_skip_tmat(c->lang, c->skip_tmat == 2 ? 2 : 1); if (tp) config_set_str(cf, "tmat", tp); }
    if (c->warp_type) config_set_str(cf, "warp_type", c->warp_type);
    if (c->warp_params) config_set_str(cf, "warp_params", c->warp_params);
    return cf;
}
#define VD_POOL 4
static struct { vd_cfg c; decoder_t *d; long used; } pool[VD_POOL]; static long pool_clock;
static int cfg_same(const vd_cfg *a, const vd_cfg *b)
{
    return a->lang == b->lang && a->samprate == b->samprate && a->compallsen == b->compallsen && a->frate == b->frate && a->cionly == b->cionly && a->ds == b->ds && a->skip_tmat == b->skip_tmat && strcmp(a->cmn ? a->cmn : "", b->cmn ? b->cmn : "") == 0
        && strcmp(a->warp_type ? a->warp_type : "", b->warp_type ? b->warp_type : "") == 0 && strcmp(a->warp_params ? a->warp_params : "", b->warp_params ? b->warp_params : "") == 0;
}
decoder_t *vd_decoder_fresh(const vd_cfg *c)
{
    config_t *cf = vd_make_config(c);
    decoder_t *d;
    vh_ctx("decoder_init");
    d = decoder_init(cf);
    if (!d) { fprintf(stderr, "vdec: decoder_init failed for %s\n", lang_dir[c->lang]); }
    return d;
}
decoder_t *vd_decoder(const vd_cfg *c)
{
    int i, victim = 0;
    for (i = 0; i < VD_POOL; ++i) if (pool[i].d && cfg_same(&pool[i].c, c)) { pool[i].used = ++pool_clock; return pool[i].d; }
    for (i = 0; i < VD_POOL; ++i) { if (!pool[i].d) { victim = i; break; } if (pool[i].used < pool[victim].used) victim = i; }
    if (pool[victim].d) decoder_free(pool[victim].d);
    pool[victim].c = *c; pool[victim].d = vd_decoder_fresh(c); pool[victim].used = ++pool_clock;
    return pool[victim].d;
}
void vd_drop_decoders(void) { int i; for (i = 0; i < VD_POOL; ++i) if (pool[i].d) { decoder_free(pool[i].d); pool[i].d = NULL; } }

/* ================= search parameters ================= */
void vd_search_default(vd_search *s)
{
    s->beam = 1e-48; s->wbeam = 7e-29; s->pbeam = 1e-48; s->maxhmmpf = 30000;
    s->lw = 6.5; s->wip = 0.65; s->pip = 1.0; s->silprob = 0.005; s->fillprob = 1e-8;
    s->usefiller = 1; s->usealtpron = 1; s->beam_mode = 0;
}
void vd_search_random(vh_rng *r, vd_search *s, int beam_mode)
{
    vd_search_default(s);
    if (beam_mode < 0) beam_mode = (int)vh_below(r, 3);
    s->beam_mode = beam_mode;
    if (beam_mode == 1) { s->beam = VH_PICK(r, ((double[]){ 1e-20, 1e-12, 1e-30 })); s->wbeam = VH_PICK(r, ((double[]){ 1e-10, 1e-16, 1e-6 })); s->pbeam = s->beam; if (vh_chance(r, 0.3)) s->maxhmmpf = VH_PICK(r, ((int[]){ 50, 200, 1000 })); }
    else if (beam_mode == 2) { s->beam = s->wbeam = s->pbeam = 0.0; s->maxhmmpf = -1; }
    if (vh_chance(r, 0.4)) s->lw = VH_PICK(r, ((double[]){ 1.0, 2.0, 9.5, 6.5 }));
    if (vh_chance(r, 0.3)) s->wip = VH_PICK(r, ((double[]){ 1.0, 0.2, 1e-4 }));
    if (vh_chance(r, 0.3)) s->pip = VH_PICK(r, ((double[]){ 1.0, 0.5, 0.05 }));
    if (vh_chance(r, 0.3)) s->silprob = VH_PICK(r, ((double[]){ 0.1, 1.0, 1e-4 }));
    if (vh_chance(r, 0.3)) s->fillprob = VH_PICK(r, ((double[]){ 1e-2, 1e-4, 0.1 }));
    if (vh_chance(r, 0.15)) s->usefiller = 0;
    if (vh_chance(r, 0.15)) s->usealtpron = 0;
}
void vd_search_apply(decoder_t *d, const vd_search *s)
{
    config_t *cf = decoder_config(d);
    config_set_float(cf, "beam", s->beam); config_set_float(cf, "wbeam", s->wbeam); config_set_float(cf, "pbeam", s->pbeam);
    config_set_int(cf, "maxhmmpf", s->maxhmmpf);
    config_set_float(cf, "lw", s->lw); config_set_float(cf, "wip", s->wip); config_set_float(cf, "pip", s->pip);
    config_set_float(cf, "silprob", s->silprob); config_set_float(cf, "fillprob", s->fillprob);
    config_set_bool(cf, "fsgusefiller", s->usefiller); config_set_bool(cf, "fsgusealtpron", s->usealtpron);
}
void vd_search_desc(const vd_search *s, char *buf, size_t n)
{
    snprintf(buf, n, "beams=%s(%g/%g/%g,maxhmmpf=%d) lw=%g wip=%g pip=%g silprob=%g fillprob=%g filler=%d altpron=%d",
             s->beam_mode == 0 ? "default" : s->beam_mode == 1 ? "narrow" : "open", s->beam, s->wbeam, s->pbeam, s->maxhmmpf, s->lw, s->wip, s->pip, s->silprob, s->fillprob, s->usefiller, s->usealtpron);
}

/* ================= grammars ================= */
static const char *en_pool[] = { "go", "forward", "ten", "meters", "backward", "two", "meter", "one", "three", "four", "five", "six", "seven", "eight", "nine",
    "a", "i", "oh", "the", "to", "and", "it", "in", "on", "at", "up", "down", "left", "right", "stop", "start", "hello", "world", "yes", "no", "either", "read", "route", "tomato", "of", "for", "or", "are", "e", "o", "you", "we" };
static const char *fr_pool[] = { "avance", "de", "dix", "mètres", "recule", "un", "mètre", "deux", "trois", "quatre", "cinq", "six", "sept", "huit", "neuf",
    "a", "à", "y", "et", "ou", "le", "la", "les", "oui", "non", "bonjour", "en", "on", "eau", "au" };
static const char *en_transcript[] = { "go", "forward", "ten", "meters" };
static const char *fr_transcript[] = { "avance", "de", "dix", "mètres" };
static char **valid_pool[2]; static int nvalid[2];

static int word_ok_for_jsgf(const char *w)
{
    const char *p;
    for (p = w; *p; ++p) if (strchr(" \t\r\n=;|*+<>()[]{}/\"", *p)) return 0;
    return *w != 0;
}
static void pool_init(int lang)
{
    const vd_lex *lx = vd_lexicon(lang); const char **src = lang == VD_FR ? fr_pool : en_pool; int n = lang == VD_FR ? (int)(sizeof(fr_pool) / sizeof(fr_pool[0])) : (int)(sizeof(en_pool) / sizeof(en_pool[0])), i;
    if (valid_pool[lang]) return;
    valid_pool[lang] = (char **)calloc((size_t)n + 1, sizeof(char *));
    for (i = 0; i < n; ++i) if (vd_lex_find(lx, src[i]) >= 0) valid_pool[lang][nvalid[lang]++] = (char *)src[i];
}
static const char *random_lex_word(vh_rng *r, int lang)
{
    const vd_lex *lx = vd_lexicon(lang); int tries;
    for (tries = 0; tries < 50; ++tries) {
        const char *w = lx->word[vh_below(r, (uint32_t)lx->n)];
        if (strchr(w, '(') || !word_ok_for_jsgf(w) || vd_is_filler_word(w) || strlen(w) > 24) continue;
        return w;
    }
    return valid_pool[lang][0];
}
/* a lexicon word of which w is a proper prefix, or which is a proper prefix of w (go / gone, for / forward): spellings that
 * only a full-length comparison tells apart */
static const char *related_word(vh_rng *r, int lang, const char *w)
{
    const vd_lex *lx = vd_lexicon(lang); size_t len = strlen(w); int i, seen = 0; const char *pick = NULL;
    for (i = 0; i < lx->n; ++i) {
        const char *c = lx->word[i]; size_t cl;
        if (c[0] != w[0]) continue;
        cl = strlen(c);
        if (cl == len || cl > 24 || !(cl > len ? strncmp(c, w, len) == 0 : strncmp(w, c, cl) == 0)) continue;
        if (strchr(c, '(') || !word_ok_for_jsgf(c) || vd_is_filler_word(c)) continue;
        if (vh_below(r, (uint32_t)++seen) == 0) pick = c;
    }
    return pick;
}
/* a lexicon word whose pronunciation ends like that of w (same last two phones if there is one, else same last phone) */
static const char *rhyme_word(vh_rng *r, int lang, const char *w, const char **avoid, int navoid)
{
    const vd_lex *lx = vd_lexicon(lang); int wi = vd_lex_find(lx, w), i, seen2 = 0, seen1 = 0, q; const char *pick2 = NULL, *pick1 = NULL, *wp, *l1, *l2 = NULL;
    if (wi < 0) return NULL;
    wp = lx->pron[wi]; l1 = strrchr(wp, ' '); if (!l1) return NULL;
    { const char *e = l1; while (e > wp && e[-1] != ' ') --e; l2 = e; }    /* start of the last-but-one phone */
    ++l1;
    for (i = 0; i < lx->n; ++i) {
        const char *c = lx->word[i], *cp = lx->pron[i], *k1 = strrchr(cp, ' '); size_t cl, pl; int bad = 0;
        if (!k1 || strcmp(k1 + 1, l1)) continue;
        cl = strlen(c);
        if (cl > 24 || strchr(c, '(') || !word_ok_for_jsgf(c) || vd_is_filler_word(c) || !strcmp(c, w)) continue;
        for (q = 0; q < navoid; ++q) if (avoid[q] && !strcmp(avoid[q], c)) bad = 1;
        if (bad) continue;
        pl = strlen(cp);
        if (pl >= strlen(l2) && !strcmp(cp + pl - strlen(l2), l2) && (pl == strlen(l2) || cp[pl - strlen(l2) - 1] == ' ')) { if (vh_below(r, (uint32_t)++seen2) == 0) pick2 = c; }
        else if (vh_below(r, (uint32_t)++seen1) == 0) pick1 = c;
    }
    return (pick2 && (!pick1 || vh_chance(r, 0.7))) ? pick2 : pick1;
}
/* choose nw distinct base words */
static int pick_vocab(vh_rng *r, int lang, int nw, int with_transcript, const char **out)
{
    int n = 0, i, guard = 0; const char **tr = lang == VD_FR ? fr_transcript : en_transcript;
    pool_init(lang);
    if (with_transcript) for (i = 0; i < 4 && n < nw; ++i) out[n++] = tr[i];
    if (lang == VD_EN && vh_chance(r, 0.25) && n < nw) {
        /* a word with three or more dictionary pronunciations */
        static const char **w3; static int nw3; const vd_lex *lx = vd_lexicon(lang);
        if (!w3) {
            int q; w3 = (const char **)calloc(4096, sizeof(char *));
            for (q = 0; q < lx->n && nw3 < 4096; ++q) { const char *w = lx->word[q]; size_t l = strlen(w); if (l > 3 && l < 24 && !strcmp(w + l - 3, "(3)")) { char *b = strdup(w); b[l - 3] = 0; if (word_ok_for_jsgf(b) && !vd_is_filler_word(b) && vd_lex_find(lx, b) >= 0) w3[nw3++] = b; else free(b); } }
        }
        if (nw3 > 0) { const char *w = w3[vh_below(r, (uint32_t)nw3)]; int dup = 0; for (i = 0; i < n; ++i) if (!strcmp(out[i], w)) dup = 1; if (!dup) { out[n++] = w; vh_count("vocabularies_with_a_word_of_three_pronunciations", 1); } }
    }
    if (vh_chance(r, 0.15)) {
        /* prefix families: some of the words are prefixes / extensions of others in the same grammar */
        int fam = vh_range(r, 1, 3), tries;
        if (n == 0) out[n++] = valid_pool[lang][vh_below(r, (uint32_t)nvalid[lang])];
        for (tries = 0; tries < 6 && fam > 0 && n < nw; ++tries) {
            const char *w = related_word(r, lang, out[vh_below(r, (uint32_t)n)]); int dup = 0;
            if (!w) continue;
            for (i = 0; i < n; ++i) if (!strcmp(out[i], w)) dup = 1;
            if (dup) continue;
            /* half of the time before the word it is related to, so that either may be seen first */
            if (vh_chance(r, 0.5) && !with_transcript) { out[n++] = out[0]; out[0] = w; } else out[n++] = w;
            --fam;
        }
        vh_count("vocabularies_with_prefix_pairs", 1);
    }
    while (n < nw && ++guard < 400) {
        const char *w = vh_chance(r, 0.75) ? valid_pool[lang][vh_below(r, (uint32_t)nvalid[lang])] : random_lex_word(r, lang);
        int dup = 0; for (i = 0; i < n; ++i) if (!strcmp(out[i], w)) dup = 1;
        if (!dup) out[n++] = w;
    }
    return n;
}
const char *vd_gram_kind_name(int kind) { static const char *nm[] = { "fsg-text", "jsgf-right-linear", "jsgf-slots", "align-text" }; return nm[kind]; }

static const char *alt_spelling(vh_rng *r, int lang, const char *base)
{
    /* an explicit numbered alternate of this word, if the lexicon has one */
    const vd_lex *lx = vd_lexicon(lang); int k = vh_range(r, 2, 3);
    char *s = vh_path("%s(%d)", base, k);
    return vd_lex_find(lx, s) >= 0 ? s : NULL;
}

void vd_gram_random(vh_rng *r, int lang, int kind, double transcript_bias, vd_gram *g)
{
    const char *V[16]; int nv, i, with_tr = vh_chance(r, transcript_bias);
    const char **tr = lang == VD_FR ? fr_transcript : en_transcript;
    memset(g, 0, sizeof(*g));
    if (kind < 0) kind = (int)vh_below(r, VG_NKINDS);
    g->kind = kind; g->lang = lang;
    vh_sb_init(&g->text);
    { int want = vh_range(r, 3, 12); if (with_tr && want < 5) want = 5; memset(V, 0, sizeof(V)); nv = pick_vocab(r, lang, want, with_tr, V); }
    for (i = 0; i < nv; ++i) { int li = vd_lex_find(vd_lexicon(lang), V[i]); if (li >= 0 && vd_lex_nphones(vd_lexicon(lang)->pron[li]) == 1) g->has_onephone = 1; }

    if (kind == VG_ALIGN_TEXT) {
        int n = vh_range(r, 1, 7), lab;
        const char *seq[12];
        if (with_tr) { n = 4; for (i = 0; i < 4; ++i) seq[i] = tr[i]; if (vh_chance(r, 0.3)) { seq[n++] = V[vh_below(r, (uint32_t)nv)]; } if (vh_chance(r, 0.2) && n > 1) n--; }
        else for (i = 0; i < n; ++i) seq[i] = V[vh_below(r, (uint32_t)nv)];
        vfsa_init(&g->truth, n + 1, 0, n);
        for (i = 0; i < n; ++i) {
            const char *w = seq[i], *alt = vh_chance(r, 0.25) ? alt_spelling(r, lang, w) : NULL;
            if (vh_chance(r, 0.06)) { vh_sb_printf(&g->text, "%s%s", g->text.n ? " " : "", (lang == VD_EN && vh_chance(r, 0.4)) ? "[NOISE]" : "<sil>"); g->has_explicit_filler = 1; }   /* a filler named in the text: a dictionary word, but never part of the sentence */
            vh_sb_printf(&g->text, "%s%s", g->text.n ? (vh_chance(r, 0.1) ? "  " : " ") : "", alt ? alt : w);
            if (alt) g->has_alt_explicit = 1;
            lab = vfsa_label(&g->truth, w);
            vfsa_add(&g->truth, i, i + 1, lab, 0);
        }
        snprintf(g->desc, sizeof(g->desc), "align text, %d words%s", n, with_tr ? " (transcript-based)" : "");
    } else if (kind == VG_JSGF_SLOTS && vh_chance(r, 0.25)) {
        /* word loop: many words competing in every frame (keeps the number of active HMMs high) */
        const char *W[40]; int nw = pick_vocab(r, lang, vh_range(r, 8, 30), with_tr, W), k2;
        vfsa_init(&g->truth, 2, 0, 1);
        vh_sb_printf(&g->text, "#JSGF V1.0;\ngrammar loop;\npublic <top> = (");
        for (k2 = 0; k2 < nw; ++k2) { int lab = vfsa_label(&g->truth, W[k2]); vh_sb_printf(&g->text, "%s %s", k2 ? " |" : "", W[k2]); vfsa_add(&g->truth, 0, 1, lab, 0); vfsa_add(&g->truth, 1, 1, lab, 0); }
        vh_sb_printf(&g->text, " )+;\n");
        snprintf(g->desc, sizeof(g->desc), "JSGF word loop over %d words%s", nw, with_tr ? " (incl. the transcript words)" : "");
    } else if (kind == VG_JSGF_SLOTS && vh_chance(r, 0.2) && nv >= 4) {
        /* one named rule referenced from two alternatives with different words before and after it: each reference stands for its own
         * copy of the rule, so "h1 <r> t2" is no sentence.  With the transcript the recording reads as exactly such a crossing
         * (head of one alternative, tail of the other). */
        const char *h1, *h2, *x1, *x2, *x3, *t1a, *t1b, *t2a, *t2b; int q, base, st;
        const char *pick[9];
        for (q = 0; q < 9; ++q) pick[q] = V[vh_below(r, (uint32_t)nv)];
        h1 = pick[0]; h2 = pick[1]; x1 = pick[2]; x2 = pick[3]; x3 = pick[4]; t1a = pick[5]; t1b = pick[6]; t2a = pick[7]; t2b = pick[8];
        if (with_tr) { h1 = tr[0]; x1 = tr[1]; t2a = tr[2]; t2b = tr[3]; }
        if (!strcmp(h1, h2)) h2 = V[(vh_below(r, (uint32_t)nv))];
        vh_sb_printf(&g->text, "#JSGF V1.0;\ngrammar sub;\npublic <top> = %s <r> %s %s | %s <r> %s [ %s ];\n<r> = %s | %s %s;\n", h1, t1a, t1b, h2, t2a, t2b, x1, x2, x3);
        vfsa_init(&g->truth, 16, 0, 15);
        for (q = 0; q < 2; ++q) {
            base = 1 + q * 6;   /* base: after head; base+1: after <r>; base+2: inside <r>; base+3: after first tail word */
            vfsa_add(&g->truth, 0, base, vfsa_label(&g->truth, q ? h2 : h1), 0);
            vfsa_add(&g->truth, base, base + 1, vfsa_label(&g->truth, x1), 0);
            vfsa_add(&g->truth, base, base + 2, vfsa_label(&g->truth, x2), 0); vfsa_add(&g->truth, base + 2, base + 1, vfsa_label(&g->truth, x3), 0);
            vfsa_add(&g->truth, base + 1, base + 3, vfsa_label(&g->truth, q ? t2a : t1a), 0);
            vfsa_add(&g->truth, base + 3, 15, vfsa_label(&g->truth, q ? t2b : t1b), 0);
            if (q) vfsa_add(&g->truth, base + 3, 15, VF_EPS, 0);
        }
        (void)st;
        vh_count("jsgf_grammars_with_a_rule_referenced_in_two_contexts", 1);
        snprintf(g->desc, sizeof(g->desc), "JSGF: rule <r> referenced from two alternatives with different heads and tails%s", with_tr ? " (the transcript is a crossing of the two)" : "");
    } else if (kind == VG_JSGF_SLOTS) {
        int ns = vh_range(r, 1, 5), s, st = 0;
        vfsa_init(&g->truth, 64, 0, 0);
        vh_sb_printf(&g->text, "#JSGF V1.0;\ngrammar slots;\npublic <top> =");
        for (s = 0; s < ns; ++s) {
            int sk = (int)vh_below(r, 7); const char *w1 = (with_tr && s < 4) ? tr[s] : V[vh_below(r, (uint32_t)nv)], *w2 = V[vh_below(r, (uint32_t)nv)], *w3 = V[vh_below(r, (uint32_t)nv)];
            int l1 = vfsa_label(&g->truth, w1), l2 = vfsa_label(&g->truth, w2), l3 = vfsa_label(&g->truth, w3);
            int a = st, b = st + 1, c = st + 2; /* b = exit of the slot; c = scratch */
            switch (sk) {
            case 0: vh_sb_printf(&g->text, " %s", w1); vfsa_add(&g->truth, a, b, l1, 0); st = b; break;
            case 1: vh_sb_printf(&g->text, " ( %s | %s )", w1, w2); vfsa_add(&g->truth, a, b, l1, 0); vfsa_add(&g->truth, a, b, l2, 0); st = b; break;
            case 2: vh_sb_printf(&g->text, " [ %s ]", w1); vfsa_add(&g->truth, a, b, l1, 0); vfsa_add(&g->truth, a, b, VF_EPS, 0); st = b; break;
            case 3: vh_sb_printf(&g->text, " %s*", w1); vfsa_add(&g->truth, a, a, l1, 0); vfsa_add(&g->truth, a, b, VF_EPS, 0); st = b; break;
            case 4: vh_sb_printf(&g->text, " %s+", w1); vfsa_add(&g->truth, a, b, l1, 0); vfsa_add(&g->truth, b, b, l1, 0); st = b; break;
            case 5: vh_sb_printf(&g->text, " ( %s %s | %s )", w1, w2, w3); vfsa_add(&g->truth, a, c, l1, 0); vfsa_add(&g->truth, c, b, l2, 0); vfsa_add(&g->truth, a, b, l3, 0);
                    /* renumber: keep c as an extra state beyond b */ st = c; vfsa_add(&g->truth, b, c + 1, VF_EPS, 0); st = c + 1; break;
            default: vh_sb_printf(&g->text, " [ %s | %s ] %s", w1, w2, w3); vfsa_add(&g->truth, a, b, l1, 0); vfsa_add(&g->truth, a, b, l2, 0); vfsa_add(&g->truth, a, b, VF_EPS, 0); vfsa_add(&g->truth, b, c, l3, 0); st = c; break;
            }
        }
        vh_sb_printf(&g->text, ";\n");
        g->truth.final = st; g->truth.n_state = st + 1;
        snprintf(g->desc, sizeof(g->desc), "JSGF slot grammar, %d slots%s", ns, with_tr ? " (transcript-based)" : "");
    } else if (kind == VG_FSG_TEXT && vh_chance(r, 0.18)) {
        /* join grammar: several two-word branches A_i B_i meet in one state, and the B_i all end in the same phone (rhymes, homophones),
         * so that in one frame several different arcs enter the same state with the same phonetic context; a branch word is a sentence
         * only after its own first word.  Arcs are written in random order. */
        int nb = vh_range(r, 2, 4), ntail, b, na = 0, J, fin, k; const char *A[4], *B[4], *T[2], *used[12]; int nu = 0;
        struct { int from, to; const char *w; double p; } arc[16], tmp;
        pool_init(lang);
        if (with_tr) { A[0] = tr[0]; B[0] = tr[1]; T[0] = tr[2]; T[1] = tr[3]; ntail = 2; }
        else {
            int guard = 0; A[0] = valid_pool[lang][vh_below(r, (uint32_t)nvalid[lang])];
            do B[0] = vh_chance(r, 0.6) ? valid_pool[lang][vh_below(r, (uint32_t)nvalid[lang])] : random_lex_word(r, lang); while (++guard < 30 && (vd_lex_find(vd_lexicon(lang), B[0]) < 0 || vd_lex_nphones(vd_lexicon(lang)->pron[vd_lex_find(vd_lexicon(lang), B[0])]) < 2 || !strcmp(B[0], A[0])));
            ntail = vh_range(r, 0, 2); for (k = 0; k < ntail; ++k) T[k] = valid_pool[lang][vh_below(r, (uint32_t)nvalid[lang])];
        }
        used[nu++] = A[0]; used[nu++] = B[0]; for (k = 0; k < ntail; ++k) used[nu++] = T[k];
        for (b = 1; b < nb; ++b) {
            int guard = 0, dup;
            B[b] = rhyme_word(r, lang, B[0], used, nu);
            if (!B[b]) { nb = b; break; }
            used[nu++] = B[b];
            do { A[b] = vh_chance(r, 0.7) ? valid_pool[lang][vh_below(r, (uint32_t)nvalid[lang])] : random_lex_word(r, lang); dup = 0; for (k = 0; k < nu; ++k) if (!strcmp(used[k], A[b])) dup = 1; } while (dup && ++guard < 40);
            if (dup) { nb = b; break; }
            used[nu++] = A[b];
        }
        J = nb + 1; fin = J + ntail;
        for (b = 0; b < nb; ++b) {
            arc[na].from = 0; arc[na].to = 1 + b; arc[na].w = A[b]; arc[na].p = VH_PICK(r, ((double[]){ 1.0, 0.5, 0.25, 0.1 })); ++na;
            arc[na].from = 1 + b; arc[na].to = J; arc[na].w = B[b]; arc[na].p = VH_PICK(r, ((double[]){ 1.0, 0.5, 0.1 })); ++na;
        }
        for (k = 0; k < ntail; ++k) { arc[na].from = J + k; arc[na].to = J + k + 1; arc[na].w = T[k]; arc[na].p = 1.0; ++na; }
        for (k = na - 1; k > 0; --k) { int j2 = (int)vh_below(r, (uint32_t)(k + 1)); tmp = arc[k]; arc[k] = arc[j2]; arc[j2] = tmp; }
        vfsa_init(&g->truth, fin + 1, 0, fin);
        vh_sb_printf(&g->text, "FSG_BEGIN join\nNUM_STATES %d\nSTART_STATE 0\nFINAL_STATE %d\n", fin + 1, fin);
        for (k = 0; k < na; ++k) { vfsa_add(&g->truth, arc[k].from, arc[k].to, vfsa_label(&g->truth, arc[k].w), 0); vh_sb_printf(&g->text, "TRANSITION %d %d %g %s\n", arc[k].from, arc[k].to, arc[k].p, arc[k].w); }
        vh_sb_printf(&g->text, "FSG_END\n");
        vh_count("fsg_texts_joining_rhyming_branches", 1);
        snprintf(g->desc, sizeof(g->desc), "fsg-text: %d two-word branches whose second words rhyme (%s ...) meet in one state, %d tail words%s", nb, B[0], ntail, with_tr ? " (contains the transcript)" : "");
    } else {
        /* random automaton, printed as FSG text or as a right-linear JSGF grammar */
        int n_state = vh_range(r, 2, 8), start = 0, final, narcs, k;
        struct { int from, to, w; double p; const char *spell; } arc[80];
        int na = 0;
        if (with_tr && n_state < 5) n_state = 5;
        final = n_state - 1;
        if (vh_chance(r, 0.1)) final = (int)vh_below(r, (uint32_t)n_state);
        if (with_tr) for (i = 0; i < 4; ++i) { arc[na].from = i; arc[na].to = i + 1; arc[na].w = i; arc[na].p = 1.0; arc[na].spell = NULL; ++na; }
        if (with_tr && final != 4 && vh_chance(r, 0.7)) { arc[na].from = 4; arc[na].to = final; arc[na].w = -1; arc[na].p = 1.0; arc[na].spell = NULL; ++na; }
        narcs = vh_range(r, n_state - 1, 3 * n_state);
        for (k = 0; k < narcs && na < 70; ++k) {
            int f = (int)vh_below(r, (uint32_t)n_state), t;
            double u = vh_unit(r);
            if (u < 0.6) t = f + 1 + (int)vh_below(r, 2); else if (u < 0.7) t = f; else t = (int)vh_below(r, (uint32_t)n_state);
            if (t >= n_state) t = n_state - 1;
            arc[na].from = f; arc[na].to = t; arc[na].p = VH_PICK(r, ((double[]){ 1.0, 0.5, 0.1, 0.01, 0.3 })); arc[na].spell = NULL;
            if (vh_chance(r, 0.12) && f != t) arc[na].w = -1;
            else { arc[na].w = (int)vh_below(r, (uint32_t)nv); if (kind == VG_FSG_TEXT && vh_chance(r, 0.2)) { arc[na].spell = alt_spelling(r, lang, V[arc[na].w]); if (arc[na].spell) { arc[na].spell = strdup(arc[na].spell); g->has_alt_explicit = 1; } } }
            ++na;
        }
        if (kind == VG_FSG_TEXT && vh_chance(r, 0.3)) {
            /* state numbers carry no meaning: renumber them at random, so that the start state is usually not state 0 */
            int perm[16], q2;
            for (q2 = 0; q2 < n_state; ++q2) perm[q2] = q2;
            for (q2 = n_state - 1; q2 > 0; --q2) { int b2 = (int)vh_below(r, (uint32_t)(q2 + 1)), t2 = perm[q2]; perm[q2] = perm[b2]; perm[b2] = t2; }
            for (k = 0; k < na; ++k) { arc[k].from = perm[arc[k].from]; arc[k].to = perm[arc[k].to]; }
            start = perm[start]; final = perm[final];
            vh_count("fsg_texts_with_renumbered_states", 1); if (start != 0) vh_count("fsg_texts_with_nonzero_start_state", 1);
        }
        vfsa_init(&g->truth, n_state, start, final);
        if (kind == VG_FSG_TEXT && vh_chance(r, 0.15)) {   /* arcs labelled with a filler word: they read as nothing */
            int nf = vh_range(r, 1, 2);
            for (k = 0; k < nf && na < 78; ++k) { arc[na].from = (int)vh_below(r, (uint32_t)n_state); arc[na].to = (int)vh_below(r, (uint32_t)n_state); arc[na].w = -2; arc[na].p = VH_PICK(r, ((double[]){ 1.0, 0.5, 0.1 })); arc[na].spell = strdup((lang == VD_EN && vh_chance(r, 0.5)) ? "[NOISE]" : "<sil>"); ++na; }
            g->has_explicit_filler = 1;
        }
        for (k = 0; k < na; ++k) vfsa_add(&g->truth, arc[k].from, arc[k].to, arc[k].w < 0 ? VF_EPS : vfsa_label(&g->truth, V[arc[k].w]), 0);
        if (kind == VG_FSG_TEXT) {
            vh_sb_printf(&g->text, "FSG_BEGIN rnd\nNUM_STATES %d\nSTART_STATE %d\nFINAL_STATE %d\n", n_state, start, final);
            for (k = 0; k < na; ++k) vh_sb_printf(&g->text, "TRANSITION %d %d %g %s\n", arc[k].from, arc[k].to, arc[k].p, arc[k].w == -1 ? "" : arc[k].spell ? arc[k].spell : V[arc[k].w]);
            vh_sb_printf(&g->text, "FSG_END\n");
        } else {
            int s;
            vh_sb_printf(&g->text, "#JSGF V1.0;\ngrammar rl;\n");
            for (s = 0; s < n_state; ++s) {
                int first = 1;
                vh_sb_printf(&g->text, "%s<s%d> =", s == start ? "public " : "", s);
                for (k = 0; k < na; ++k) {
                    if (arc[k].from != s) continue;
                    if (arc[k].w < 0 && arc[k].to == s) continue;
                    vh_sb_printf(&g->text, "%s /%g/ ", first ? "" : " |", arc[k].p);
                    if (arc[k].w >= 0) vh_sb_printf(&g->text, "%s ", V[arc[k].w]);
                    vh_sb_printf(&g->text, "<s%d>", arc[k].to);
                    first = 0;
                }
                if (s == final) { vh_sb_printf(&g->text, "%s /1/ <NULL>", first ? "" : " |"); first = 0; }
                if (first) vh_sb_printf(&g->text, " <VOID>");
                vh_sb_printf(&g->text, ";\n");
            }
        }
        for (k = 0; k < na; ++k) free((void *)arc[k].spell);
        snprintf(g->desc, sizeof(g->desc), "%s: random automaton %d states, %d arcs%s", vd_gram_kind_name(kind), n_state, na, with_tr ? " (contains the transcript)" : "");
    }
    g->accepts_empty = vfsa_accepts(&g->truth, NULL, 0, 1) == 1;
}

int vd_gram_load(decoder_t *d, vd_gram *g)
{
    if (g->kind == VG_FSG_TEXT) {
        s3file_t *s3 = s3file_init(g->text.s, g->text.n);
        fsg_model_t *fsg;
        vh_ctx("fsg_model_read_s3file");
        fsg = fsg_model_read_s3file(s3, decoder_logmath(d), (float32)config_float(decoder_config(d), "lw"));
        s3file_free(s3);
        if (!fsg) return -1;
        vh_ctx("decoder_set_fsg");
        return decoder_set_fsg(d, fsg); /* consumes fsg */
    } else if (g->kind == VG_ALIGN_TEXT) {
        vh_ctx("decoder_set_align_text");
        return decoder_set_align_text(d, g->text.s);
    }
    vh_ctx("decoder_set_jsgf_string");
    return decoder_set_jsgf_string(d, g->text.s);
}
void vd_gram_free(vd_gram *g) { vh_sb_free(&g->text); vfsa_free(&g->truth); }

/* ================= running ================= */
void vd_pattern_random(vh_rng *r, vd_pattern *p, int allow_full_utt)
{
    memset(p, 0, sizeof(*p));
    p->full_utt = allow_full_utt && vh_chance(r, 0.2);
    p->use_float = vh_chance(r, 0.25);
    p->style = (int)vh_below(r, 7);
    p->no_search_chunks = vh_chance(r, 0.2) ? (vh_chance(r, 0.4) ? -1 : vh_range(r, 1, 6)) : 0;
    p->partial_prob = vh_chance(r, 0.6) ? vh_unit(r) : 0.0;
    if (!p->full_utt && p->no_search_chunks >= 0 && vh_chance(r, 0.15)) p->no_search_prob = VH_PICK(r, ((double[]){ 0.3, 0.5, 0.7 }));
}
void vd_pattern_desc(const vd_pattern *p, char *buf, size_t n)
{
    static const char *st[] = { "2048-sample chunks", "one streaming call", "random chunks", "tiny chunks", "first chunk < 1 frame", "huge chunks", "short chunk then the rest" };
    if (p->full_utt) snprintf(buf, n, "%s full_utt", p->use_float ? "float32" : "int16");
    else snprintf(buf, n, "%s %s no_search_chunks=%d%s partial_prob=%.2f", p->use_float ? "float32" : "int16", st[p->style], p->no_search_chunks, p->no_search_prob > 0 ? " +interleaved no_search" : "", p->partial_prob);
}

static int feed(decoder_t *d, const vd_audio *a, long off, long len, int use_float, int no_search, int full_utt, float *fbuf)
{
    if (use_float) {
        long j; for (j = 0; j < len; ++j) fbuf[j] = (float)a->s[off + j] / 32768.0f;
        vh_ctx("decoder_process_float32");
        return decoder_process_float32(d, fbuf, (size_t)len, no_search, full_utt);
    }
    vh_ctx("decoder_process_int16");
    return decoder_process_int16(d, a->s + off, (size_t)len, no_search, full_utt);
}

int vd_run(decoder_t *d, const vd_audio *a, vh_rng *r, const vd_pattern *p, vd_partial_cb cb, void *user, vd_runinfo *info)
{
    long pos = 0, chunkno = 0; int rv; float *fbuf = NULL;
    memset(info, 0, sizeof(*info));
    info->samples = a->n;
    vh_ctx("decoder_start_utt");
    info->start_ret = decoder_start_utt(d);
    if (info->start_ret < 0) { info->failed = 1; return -1; }
    if (p->use_float) fbuf = (float *)malloc(sizeof(float) * (size_t)(a->n + 1));
    if (p->full_utt) {
        rv = feed(d, a, 0, a->n, p->use_float, 0, 1, fbuf);
        ++info->ncalls; if (rv < 0) info->failed = 1; else info->sum_ret += rv;
        if (cb && p->partial_prob > 0 && vh_chance(r, p->partial_prob)) cb(d, user, a->n, info->sum_ret);
    } else {
        while (pos < a->n) {
            long len; int ns;
            switch (p->style) {
            case 0: len = 2048; break;
            case 1: len = a->n; break;
            case 2: len = vh_chance(r, 0.3) ? vh_range(r, 1, 400) : vh_range(r, 1, 9000); break;
            case 3: len = a->n > 40000 ? vh_range(r, 160, 400) : vh_range(r, 1, 200); break;
            case 4: len = chunkno == 0 ? vh_range(r, 1, 300) : 2048; break;
            case 6: len = chunkno == 0 ? vh_range(r, 800, 6000) : a->n; break;   /* a short chunk, then everything else in one call */
            default: len = vh_range(r, 20000, 60000); break;
            }
            if (pos + len > a->n) len = a->n - pos;
            ns = p->no_search_chunks < 0 || chunkno < p->no_search_chunks || (p->no_search_prob > 0 && vh_chance(r, p->no_search_prob));
            vh_note("      chunk %ld: %ld samples%s", chunkno, len, ns ? " (no_search)" : "");
            rv = feed(d, a, pos, len, p->use_float, ns, 0, fbuf);
            ++info->ncalls; ++chunkno; pos += len;
            if (rv < 0) { info->failed = 1; break; }
            info->sum_ret += rv;
            if (cb && p->partial_prob > 0 && vh_chance(r, p->partial_prob)) cb(d, user, pos, info->sum_ret);
        }
    }
    info->nframes_before_end = decoder_n_frames(d);
    vh_ctx("decoder_end_utt");
    info->end_ret = decoder_end_utt(d);
    info->nframes_after_end = decoder_n_frames(d);
    if (info->end_ret < 0) info->failed = 1;
    free(fbuf);
    return info->failed ? -1 : 0;
}

/* ================= results ================= */
void vd_result_get(decoder_t *d, vd_result *out)
{
    const char *h; seg_iter_t *it; int cap = 0;
    memset(out, 0, sizeof(*out));
    vh_ctx("decoder_hyp");
    h = decoder_hyp(d, &out->score);
    if (h) { out->has_hyp = 1; snprintf(out->hyp, sizeof(out->hyp), "%s", h); }
    vh_ctx("decoder_seg_iter");
    for (it = decoder_seg_iter(d); it; it = seg_iter_next(it)) {
        vd_seg *s;
        if (out->nseg == cap) { cap = cap ? cap * 2 : 32; out->seg = (vd_seg *)realloc(out->seg, sizeof(vd_seg) * (size_t)cap); }
        s = &out->seg[out->nseg++];
        snprintf(s->word, sizeof(s->word), "%s", seg_iter_word(it) ? seg_iter_word(it) : "(nullptr)");
        seg_iter_frames(it, &s->sf, &s->ef);
        s->prob = seg_iter_prob(it, &s->ascr, &s->lscr);
    }
    out->n_frames = decoder_n_frames(d);
}
void vd_result_free(vd_result *r) { free(r->seg); r->seg = NULL; r->nseg = 0; }
uint64_t vd_result_hash(const vd_result *r)
{
    uint64_t h = VH_H0; int i;
    h = vh_hash(&r->has_hyp, sizeof(int), h); h = vh_hash(r->hyp, strlen(r->hyp), h); h = vh_hash(&r->score, sizeof(int32), h);
    for (i = 0; i < r->nseg; ++i) { h = vh_hash(r->seg[i].word, strlen(r->seg[i].word), h); h = vh_hash(&r->seg[i].sf, sizeof(int), h); h = vh_hash(&r->seg[i].ef, sizeof(int), h); h = vh_hash(&r->seg[i].ascr, sizeof(int32), h); h = vh_hash(&r->seg[i].lscr, sizeof(int32), h); }
    return h;
}
int vd_result_equal(const vd_result *a, const vd_result *b, char *why, size_t n)
{
    int i;
    if (a->has_hyp != b->has_hyp || strcmp(a->hyp, b->hyp)) { snprintf(why, n, "hypothesis \"%s\" vs \"%s\"", a->has_hyp ? a->hyp : "(none)", b->has_hyp ? b->hyp : "(none)"); return 0; }
    if (a->has_hyp && a->score != b->score) { snprintf(why, n, "score %d vs %d (hyp \"%s\")", a->score, b->score, a->hyp); return 0; }
    if (a->nseg != b->nseg) { snprintf(why, n, "%d segments vs %d", a->nseg, b->nseg); return 0; }
    for (i = 0; i < a->nseg; ++i) {
        const vd_seg *x = &a->seg[i], *y = &b->seg[i];
        if (strcmp(x->word, y->word) || x->sf != y->sf || x->ef != y->ef || x->ascr != y->ascr || x->lscr != y->lscr) {
            snprintf(why, n, "segment %d: %s[%d,%d] ascr %d lscr %d  vs  %s[%d,%d] ascr %d lscr %d", i, x->word, x->sf, x->ef, x->ascr, x->lscr, y->word, y->sf, y->ef, y->ascr, y->lscr);
            return 0;
        }
    }
    return 1;
}
