/* h_endpoint.c -- C15: endpointed speech segments are exact excerpts with consistent timestamps.
 *
 * Trace checker over the OBSERVABLE history only (inputs, decisions, returned frames, the
 * in_speech flag and the two time stamps); it does not replicate the queue code.
 *
 *   window W_k   = the inputs after the last returned frame, at most the maxlen most recent
 *   c_k          = number of speech decisions in W_k
 *   start at k  <=> not in speech and c_k > ratio * maxlen
 *   end   at k  <=> in speech and c_k < (1 - ratio) * maxlen      (where the implementation's
 *                   integer rounding of that threshold and the real value disagree, either
 *                   behaviour is accepted)
 *
 * Decisions come either from a script (hook ssv_vad_script: every decision string is
 * possible) or from real audio with a shadow vad_t fed the same frames (no hook active).
 * Every input frame carries a unique id pattern, so a returned frame identifies its source.
 */
#include "vh.h"
#include <math.h>
#include <soundswallower/endpointer.h>
#include <soundswallower/vad.h>
#include <soundswallower/err.h>
#include <soundswallower/ssverif.h>

#define MAXFRAME 2048

typedef struct cfg {
    double window, ratio, frame_length;
    int sample_rate;
    vad_mode_t mode;
} cfg_t;

typedef struct trace {
    endpointer_t *ep;
    cfg_t cfg;
    int frame_size, maxlen;
    double fl, x_start, y_end;
    int y_end_impl;
    long k;            /* number of frames fed */
    long last_ret;     /* id of last returned frame, -1 */
    int in_speech;     /* oracle's state */
    unsigned char *dec; long ndec, capdec;
    long seg_first;    /* id of first frame of the current / last segment */
    long nseg, nret;
    int bad;
    int16_t *audio;    /* real-audio mode: the stream; NULL in scripted mode */
    long naudio;
    long ambiguous;
} trace_t;

static int script_next_decision;
static int script_cb(void *user, const short *frame) { (void)user; (void)frame; return script_next_decision; }

static void frame_fill(int16_t *f, int n, long id)
{
    int j;
    uint64_t s = (uint64_t)id * 0x9E3779B97F4A7C15ULL + 12345;
    for (j = 0; j < n; ++j) {
        s ^= s >> 12; s ^= s << 25; s ^= s >> 27;
        f[j] = (int16_t)((s * 0x2545F4914F6CDD1DULL) >> 48);
    }
    if (n >= 4) { f[0] = (int16_t)(id & 0x7fff); f[1] = (int16_t)((id >> 15) & 0x7fff); f[2] = 0x5a5a; f[3] = (int16_t)~f[0]; }
}

static void get_frame(trace_t *t, long id, int16_t *f)
{
    if (t->audio) memcpy(f, t->audio + id * t->frame_size, sizeof(int16_t) * (size_t)t->frame_size);
    else frame_fill(f, t->frame_size, id);
}

static int approx(double a, double b) { return fabs(a - b) <= 1e-9 * fmax(1.0, fabs(b)) + 1e-12; }

static int trace_init(trace_t *t, const cfg_t *c)
{
    memset(t, 0, sizeof(*t));
    t->cfg = *c;
    vh_ctx("endpointer_init");
    t->ep = endpointer_init(c->window, c->ratio, c->mode, c->sample_rate, c->frame_length);
    if (!t->ep) return -1;
    t->frame_size = (int)endpointer_frame_size(t->ep);
    t->fl = endpointer_frame_length(t->ep);
    {
        double w = c->window == 0.0 ? ENDPOINTER_DEFAULT_WINDOW : c->window;
        double r = c->ratio == 0.0 ? ENDPOINTER_DEFAULT_RATIO : c->ratio;
        t->maxlen = (int)(w / t->fl + 0.5);
        t->x_start = r * t->maxlen;
        t->y_end = (1.0 - r) * t->maxlen;
        t->y_end_impl = (int)(t->y_end + 0.5);
    }
    t->last_ret = -1;
    if (t->frame_size <= 0 || t->frame_size > MAXFRAME) { vh_viol("frame_size", "frame size %d out of range", t->frame_size); return -1; }
    return 0;
}

static void trace_free(trace_t *t)
{
    if (t->ep) endpointer_free(t->ep);
    free(t->dec);
    memset(t, 0, sizeof(*t));
}

static long window_lo(const trace_t *t, long k)
{
    long lo = t->last_ret + 1;
    if (k - t->maxlen + 1 > lo) lo = k - t->maxlen + 1;
    return lo;
}

/* feed frame k with decision d; check everything observable */
static void trace_step(trace_t *t, int d)
{
    int16_t in[MAXFRAME], want[MAXFRAME];
    const int16_t *out;
    long k = t->k, lo, j, c = 0;
    int now_in;
    if (t->ndec == t->capdec) { t->capdec = t->capdec ? t->capdec * 2 : 1024; t->dec = (unsigned char *)realloc(t->dec, (size_t)t->capdec); }
    t->dec[t->ndec++] = (unsigned char)d;
    get_frame(t, k, in);
    script_next_decision = d;
    vh_ctx("endpointer_process");
    out = endpointer_process(t->ep, in);
    memset(in, 0x77, sizeof(int16_t) * (size_t)t->frame_size); /* the endpointer must have copied it */
    now_in = endpointer_in_speech(t->ep);
    lo = window_lo(t, k);
    for (j = lo; j <= k; ++j) c += t->dec[j];
    vh_max("max_window_fill", k - lo + 1);
    if (!t->in_speech) {
        int start = (double)c > t->x_start;
        if (start) {
            vh_count("starts", 1);
            if (!out || !now_in) { vh_viol("start_missed", "k=%ld: %ld speech decisions in window of %ld (> %.3f) but no segment started (out=%p in_speech=%d)", k, c, k - lo + 1, t->x_start, (void *)out, now_in); t->bad = 1; }
            else {
                get_frame(t, lo, want);
                if (memcmp(out, want, sizeof(int16_t) * (size_t)t->frame_size) != 0) {
                    long gid = (long)(out[0] & 0x7fff) | ((long)(out[1] & 0x7fff) << 15);
                    vh_viol("start_wrong_frame", "k=%ld: segment must begin with input %ld (oldest in the look-back window), returned frame looks like input %ld", k, lo, gid); t->bad = 1;
                }
                if (!approx(endpointer_speech_start(t->ep), lo * t->fl)) { vh_viol("speech_start", "k=%ld: speech_start=%.9f, first returned frame %ld starts at %.9f", k, endpointer_speech_start(t->ep), lo, lo * t->fl); t->bad = 1; }
                if (t->last_ret >= lo) { vh_viol("overlap", "segment starts at input %ld but input %ld was already returned", lo, t->last_ret); t->bad = 1; }
                t->in_speech = 1; t->last_ret = lo; t->seg_first = lo; ++t->nseg; ++t->nret;
                if (k - lo + 1 < t->maxlen) vh_count("start_before_window_full", 1);
            }
        } else {
            if (out || now_in) { vh_viol("start_spurious", "k=%ld: only %ld speech decisions in window (need > %.3f) but a segment started", k, c, t->x_start); t->bad = 1; }
        }
    } else {
        int end_impl = c < t->y_end_impl, end_real = (double)c < t->y_end, ended;
        long want_id = t->last_ret + 1;
        if (!out) { vh_viol("gap_in_segment", "k=%ld: in speech but no frame returned", k); t->bad = 1; return; }
        get_frame(t, want_id, want);
        if (memcmp(out, want, sizeof(int16_t) * (size_t)t->frame_size) != 0) {
            long gid = (long)(out[0] & 0x7fff) | ((long)(out[1] & 0x7fff) << 15);
            vh_viol("not_consecutive", "k=%ld: expected a byte-identical copy of input %ld, returned frame looks like input %ld", k, want_id, gid); t->bad = 1;
        }
        t->last_ret = want_id; ++t->nret;
        ended = !now_in;
        if (end_impl != end_real) { ++t->ambiguous; vh_count("end_threshold_rounding_ambiguous", 1); }
        else if (ended != end_real) {
            vh_viol(ended ? "end_spurious" : "end_missed", "k=%ld: %ld speech decisions in window of %ld, end threshold %.3f: segment %s", k, c, k - lo + 1, t->y_end, ended ? "ended" : "did not end");
            t->bad = 1;
        }
        if (ended) {
            vh_count("ends", 1);
            if (!approx(endpointer_speech_end(t->ep), (want_id + 1) * t->fl)) { vh_viol("speech_end", "k=%ld: speech_end=%.9f but last returned frame %ld ends at %.9f", k, endpointer_speech_end(t->ep), want_id, (want_id + 1) * t->fl); t->bad = 1; }
            if (!approx(endpointer_speech_start(t->ep), t->seg_first * t->fl)) { vh_viol("speech_start", "speech_start changed during the segment"); t->bad = 1; }
            t->in_speech = 0;
        }
    }
    t->k = k + 1;
}

static void trace_end_stream(trace_t *t, int nsamp)
{
    int16_t tail[MAXFRAME], want[MAXFRAME];
    size_t outn = 12345;
    const int16_t *out;
    long j, m = 0, q = t->k - (t->last_ret + 1);
    int i, drained;
    for (i = 0; i < nsamp; ++i) tail[i] = (int16_t)(0x4000 + i);
    vh_ctx("endpointer_end_stream");
    out = endpointer_end_stream(t->ep, tail, (size_t)nsamp, &outn);
    vh_count("end_stream_calls", 1);
    if (!t->in_speech) {
        if (out != NULL || outn != 0) vh_viol("end_stream_idle", "end_stream outside speech returned %p / %zu samples", (void *)out, outn);
        return;
    }
    while (m < q && t->dec[t->last_ret + 1 + m]) ++m;
    drained = (m == q);
    vh_count(drained ? "end_stream_drained" : "end_stream_cut_at_nonspeech", 1);
    if (q == 0) vh_count("end_stream_empty_queue", 1);
    if (!out) { vh_viol("end_stream_null", "end_stream in speech returned NULL (queue %ld frames)", q); return; }
    {
        size_t wantn = (size_t)m * (size_t)t->frame_size + (drained ? (size_t)nsamp : 0);
        if (outn != wantn) { vh_viol("end_stream_nsamp", "end_stream returned %zu samples, expected %zu (%ld queued speech frames of %ld, trailing %d, drained=%d)", outn, wantn, m, q, nsamp, drained); return; }
    }
    for (j = 0; j < m; ++j) {
        get_frame(t, t->last_ret + 1 + j, want);
        if (memcmp(out + j * t->frame_size, want, sizeof(int16_t) * (size_t)t->frame_size) != 0) { vh_viol("end_stream_content", "end_stream frame %ld is not a copy of input %ld", j, t->last_ret + 1 + j); break; }
    }
    if (drained && nsamp && memcmp(out + m * t->frame_size, tail, sizeof(int16_t) * (size_t)nsamp) != 0)
        vh_viol("end_stream_tail", "trailing partial frame not returned intact");
    {
        double want_end = drained ? t->k * t->fl + (double)nsamp / endpointer_sample_rate(t->ep) : (t->last_ret + 1 + m) * t->fl;
        if (!approx(endpointer_speech_end(t->ep), want_end)) vh_viol("end_stream_speech_end", "speech_end=%.9f after end_stream, expected %.9f (drained=%d m=%ld)", endpointer_speech_end(t->ep), want_end, drained, m);
    }
    if (endpointer_in_speech(t->ep)) vh_viol("end_stream_state", "still in speech after end_stream");
}

/* ---------------- case kinds ---------------- */
static const double grid_ratio[] = { 0.3, 0.5, 0.6, 0.75, 0.9 };
#define NGRID_MAXLEN 8   /* maxlen 3..10 via window = maxlen * 0.01 */
#define NGRID (NGRID_MAXLEN * 5)

static long ncases(int tier, long req)
{
    if (req >= 0) return req;
    return NGRID + (tier ? 4000 : 260);
}
static void setup(void) { err_set_loglevel(ERR_FATAL); }

static void run_exhaustive(long i, vh_rng *r)
{
    cfg_t c;
    int L = vh_tier ? 17 : 13, len;
    long runs = 0, skipped = 0;
    (void)r;
    c.window = (3 + (i % NGRID_MAXLEN)) * 0.01;
    c.ratio = grid_ratio[i / NGRID_MAXLEN];
    c.frame_length = 0.01; c.sample_rate = 8000; c.mode = VAD_LOOSE;
    ssv_vad_script = script_cb;
    vh_desc("exhaustive: every decision string of length 0..%d, window=%.2fs ratio=%.2f 8kHz/10ms, each followed by end_stream", L, c.window, c.ratio);
    for (len = 0; len <= L; ++len) {
        uint32_t bits, n = 1u << len;
        for (bits = 0; bits < n; ++bits) {
            trace_t t; int b;
            if (trace_init(&t, &c) < 0) { ++skipped; trace_free(&t); goto done; }
            for (b = 0; b < len && !t.bad; ++b) trace_step(&t, (bits >> b) & 1);
            if (!t.bad) trace_end_stream(&t, (int)((bits + (uint32_t)len) % 3) * (t.frame_size / 2));
            ++runs;
            vh_max("max_segments_in_a_stream", t.nseg);
            trace_free(&t);
        }
    }
done:
    ssv_vad_script = NULL;
    if (skipped) { vh_count("grid_config_rejected_by_init", 1); return; }
    vh_count("exhaustive_strings", runs);
    vh_nontrivial("exh/%ld", i);
    if (i % 7 == 3) vh_sample("exhaustive: window %.2fs ratio %.2f (maxlen %d): all %ld decision strings of length <= %d, each ended with end_stream", c.window, c.ratio, (int)(c.window / 0.01 + 0.5), runs, L);
}

static const int rates[] = { 8000, 16000, 32000, 48000, 11025, 22050, 44100, 12000, 24000 };
static const double flens[] = { 0.01, 0.02, 0.03 };

static int random_cfg(vh_rng *r, cfg_t *c)
{
    c->sample_rate = VH_PICK(r, rates);
    c->frame_length = VH_PICK(r, flens);
    c->window = vh_chance(r, 0.1) ? 0.0 : 0.05 + vh_unit(r) * 0.95;
    c->ratio = vh_chance(r, 0.1) ? 0.0 : 0.5 + vh_unit(r) * 0.45;
    if (vh_chance(r, 0.2)) c->ratio = 0.1 + vh_unit(r) * 0.85;
    c->mode = (vad_mode_t)vh_below(r, 4);
    return 0;
}

static void run_scripted(long i, vh_rng *r)
{
    cfg_t c; trace_t t;
    long n = vh_range(r, 1, vh_chance(r, 0.2) ? 5000 : 600), k;
    double p_stay = 0.5 + vh_unit(r) * 0.49, bias = vh_unit(r);
    int d = 0, tries = 0;
    do { random_cfg(r, &c); } while (trace_init(&t, &c) < 0 && (trace_free(&t), ++tries < 50));
    if (tries >= 50) { vh_inconc("no accepted configuration"); return; }
    ssv_vad_script = script_cb;
    vh_desc("scripted: rate=%d flen=%.2f window=%.3f ratio=%.3f -> frame_size=%d maxlen=%d; %ld frames, markov stay=%.2f bias=%.2f",
            c.sample_rate, c.frame_length, c.window, c.ratio, t.frame_size, t.maxlen, n, p_stay, bias);
    for (k = 0; k < n && !t.bad; ++k) {
        if (!vh_chance(r, p_stay)) d = vh_chance(r, bias);
        trace_step(&t, d);
    }
    if (!t.bad) trace_end_stream(&t, vh_chance(r, 0.3) ? 0 : vh_range(r, 0, t.frame_size));
    ssv_vad_script = NULL;
    vh_count("scripted_streams", 1);
    vh_count("frames_fed", t.k);
    vh_count("frames_returned", t.nret);
    vh_max("max_segments_in_a_stream", t.nseg);
    if (t.nseg > 0) vh_nontrivial("scr/%ld/%ld/%ld", i, t.nseg, t.nret);
    if (t.nseg > 2) vh_sample("scripted stream #%ld: rate %d, frame %d samples, maxlen %d, ratio %.2f: %ld frames in, %ld segments, %ld frames returned, %ld rounding-ambiguous end decisions",
                              i, c.sample_rate, t.frame_size, t.maxlen, c.ratio, t.k, t.nseg, t.nret, t.ambiguous);
    trace_free(&t);
}

/* real audio, shadow VAD */
static int16_t *speech16k; static size_t nspeech16k;
static void load_audio(void)
{
    size_t n = 0;
    if (speech16k) return;
    speech16k = (int16_t *)vh_read_file(vh_path("%s/tests/data/goforward.raw", vh_repo), &n);
    nspeech16k = n / 2;
}

static void run_audio(long i, vh_rng *r)
{
    cfg_t c; trace_t t; vad_t *shadow;
    long nfr, k, pos = 0, total;
    int tries = 0;
    load_audio();
    if (!speech16k) { vh_inconc("test audio not found"); return; }
    do { random_cfg(r, &c); c.sample_rate = VH_PICK(r, ((int[]){ 8000, 16000, 32000, 48000 })); } while (trace_init(&t, &c) < 0 && (trace_free(&t), ++tries < 50));
    if (tries >= 50) { vh_inconc("no accepted configuration"); return; }
    shadow = vad_init(c.mode, c.sample_rate, c.frame_length);
    /* build a stream: speech excerpts (resampled by sample repetition / decimation), silence, noise */
    total = (long)c.sample_rate * vh_range(r, 4, 25);
    nfr = total / t.frame_size;
    t.audio = (int16_t *)calloc((size_t)(nfr * t.frame_size), sizeof(int16_t));
    t.naudio = nfr * t.frame_size;
    while (pos < t.naudio) {
        long len = (long)(c.sample_rate * (0.1 + vh_unit(r) * 3.0)), j;
        int kind = (int)vh_below(r, 4);
        if (pos + len > t.naudio) len = t.naudio - pos;
        if (kind == 0) { /* speech */
            long off = (long)vh_below(r, (uint32_t)nspeech16k);
            for (j = 0; j < len; ++j) t.audio[pos + j] = speech16k[(off + (j * 16000L) / c.sample_rate) % (long)nspeech16k];
        } else if (kind == 1) { /* noise */
            int amp = vh_range(r, 1, 3000);
            for (j = 0; j < len; ++j) t.audio[pos + j] = (int16_t)(vh_range(r, -amp, amp));
        } else if (kind == 2) { /* speech + gain */
            long off = (long)vh_below(r, (uint32_t)nspeech16k); int g = vh_range(r, 1, 6);
            for (j = 0; j < len; ++j) { long v = (long)speech16k[(off + (j * 16000L) / c.sample_rate) % (long)nspeech16k] * g / 2; t.audio[pos + j] = (int16_t)(v > 32767 ? 32767 : v < -32768 ? -32768 : v); }
        } /* kind 3: digital silence */
        pos += len;
    }
    vh_desc("audio: rate=%d flen=%.2f window=%.3f ratio=%.3f mode=%d -> frame_size=%d maxlen=%d; %ld frames (shadow VAD, hook inactive)",
            c.sample_rate, c.frame_length, c.window, c.ratio, (int)c.mode, t.frame_size, t.maxlen, nfr);
    ssv_vad_script = NULL;
    for (k = 0; k < nfr && !t.bad; ++k) {
        int d = vad_classify(shadow, t.audio + k * t.frame_size);
        if (d < 0) { vh_inconc("shadow VAD error"); break; }
        trace_step(&t, d);
    }
    if (!t.bad) trace_end_stream(&t, vh_range(r, 0, t.frame_size));
    vh_count("audio_streams", 1);
    vh_count("frames_fed", t.k);
    vh_count("frames_returned", t.nret);
    if (t.nseg > 0) vh_nontrivial("aud/%ld/%ld/%ld", i, t.nseg, t.nret);
    if (t.nseg > 1) vh_sample("real-audio stream #%ld (shadow VAD): rate %d, frame %d samples, maxlen %d, ratio %.2f, mode %d: %ld frames in, %ld segments, %ld frames returned", i, c.sample_rate, t.frame_size, t.maxlen, c.ratio, (int)c.mode, t.k, t.nseg, t.nret);
    vad_free(shadow);
    free(t.audio); t.audio = NULL;
    trace_free(&t);
}

static void run(long i, vh_rng *r)
{
    if (i < NGRID) run_exhaustive(i, r);
    else if ((i - NGRID) % 4 == 3) run_audio(i, r);
    else run_scripted(i, r);
    if (vh_have_lsan() && (i % 50) == 49 && vh_leak_check()) vh_viol("LSAN", "leak after endpointer_free");
}

static const vh_harness H = { "h_endpoint", ncases, setup, run, NULL, 600 };
int main(int argc, char **argv) { return vh_main(argc, argv, &H); }
