/* h_hash.c -- C20: the hash table behaves as a map under any operation history.
 *
 * Reference model: a plain array of pool keys with (live, value, stored instance).  The
 * oracle never hashes: equality is decided on the key bytes (ASCII-case-folded in no-case
 * mode).  The generator replicates the table's hash function only to CONSTRUCT colliding
 * keys and to classify which unlink path a deletion takes (statistics for the evidence).
 *
 * Every operation passes a freshly malloc'd instance of the key; an instance is freed as
 * soon as the table (per its documented semantics) no longer references it -- duplicate
 * enter keeps the old instance, replace switches to the new one -- so a table that holds
 * on to the wrong pointer reads freed memory under ASan.
 *
 * Cases:  [0, NEXH)   exhaustive enumeration of ALL histories of length <= D over 3 keys that
 *                     share one bucket (+ "empty"), split by the first two operations;
 *         [NEXH, ...) random histories over pools of colliding / prefix / case-variant /
 *                     empty / binary keys.
 */
#include "vh.h"
#include <stddef.h>
#include <ctype.h>
#include <soundswallower/hash_table.h>
#include <soundswallower/glist.h>
#include <soundswallower/err.h>

enum { FAM_STR_CASE, FAM_STR_NOCASE, FAM_BIN_CASE, FAM_BIN_NOCASE, NFAM };
static const char *fam_name[] = { "string/case", "string/nocase", "binary/case", "binary/nocase" };

typedef struct inst { int pool; int live; char bytes[1]; } inst_t;

typedef struct pkey {
    char *bytes; size_t len;   /* canonical bytes of this pool key (this spelling) */
    int cls;                   /* equality class id (keys equal under the table's equality share it) */
} pkey_t;

typedef struct cls {
    int live;
    void *val;
    inst_t *stored;            /* the instance the table is documented to reference */
    int seen;                  /* scratch for iteration checks */
} cls_t;

typedef struct model {
    int fam, nocase, binary;
    pkey_t *keys; int nkeys;
    cls_t *cls; int ncls;
    int nlive;
    hash_table_t *h;
    long nops;
} model_t;

#define NOPS_EXH 13
#define NPREFIX (NOPS_EXH * NOPS_EXH)
#define NEXH (NPREFIX * NFAM)

static long ncases(int tier, long req)
{
    if (req >= 0) return req;
    return NEXH + (tier ? 6000 : 320);
}
static void setup(void) { err_set_loglevel(ERR_FATAL); }

static int up(int c) { return (c >= 'a' && c <= 'z') ? c - 32 : c; }

/* replica of key2hash/makekey: used ONLY to construct collisions and for statistics */
static uint32_t rep_hash_str(const char *key, int nocase, uint32_t size)
{
    uint32_t hash = 0; int s = 0; const char *cp;
    for (cp = key; *cp; cp++) {
        if (nocase) { unsigned char c = (unsigned char)*cp; c = (unsigned char)up(c); hash += (uint32_t)c << s; }
        else hash += (uint32_t)((int32_t)(*cp) * (int32_t)(1u << s));
        s += 5; if (s >= 25) s -= 24;
    }
    return hash % size;
}
static uint32_t rep_hash(const model_t *m, const char *bytes, size_t len)
{
    uint32_t size = (uint32_t)hash_table_size(m->h);
    if (!m->binary) return rep_hash_str(bytes, m->nocase, size);
    {
        char *k = (char *)malloc(len * 2 + 1); size_t i; uint32_t r;
        for (i = 0; i < len; ++i) { k[2*i] = 'A' + (bytes[i] & 0xf); k[2*i+1] = 'J' + ((bytes[i] >> 4) & 0xf); }
        k[2*len] = 0;
        r = rep_hash_str(k, m->nocase, size);
        free(k);
        return r;
    }
}

static int keys_equal(const model_t *m, const pkey_t *a, const pkey_t *b)
{
    size_t i;
    if (a->len != b->len) return 0;
    for (i = 0; i < a->len; ++i) {
        int x = (unsigned char)a->bytes[i], y = (unsigned char)b->bytes[i];
        if (m->nocase) { x = up(x); y = up(y); }
        if (x != y) return 0;
    }
    return 1;
}

static inst_t *mkinst(const model_t *m, int pool)
{
    const pkey_t *k = &m->keys[pool];
    inst_t *in = (inst_t *)malloc(offsetof(inst_t, bytes) + k->len + 1);
    in->pool = pool; in->live = 1;
    memcpy(in->bytes, k->bytes, k->len);
    in->bytes[k->len] = 0;
    return in;
}
static inst_t *inst_of(const char *keyptr) { return (inst_t *)((char *)keyptr - offsetof(inst_t, bytes)); }

static void add_key(model_t *m, const char *bytes, size_t len)
{
    pkey_t k; int i;
    k.bytes = (char *)malloc(len + 1); memcpy(k.bytes, bytes, len); k.bytes[len] = 0; k.len = len; k.cls = -1;
    /* exact duplicate spelling: skip */
    for (i = 0; i < m->nkeys; ++i)
        if (m->keys[i].len == len && memcmp(m->keys[i].bytes, bytes, len) == 0) { free(k.bytes); return; }
    for (i = 0; i < m->nkeys; ++i)
        if (keys_equal(m, &m->keys[i], &k)) { k.cls = m->keys[i].cls; break; }
    if (k.cls < 0) {
        m->cls = (cls_t *)realloc(m->cls, sizeof(cls_t) * (size_t)(m->ncls + 1));
        memset(&m->cls[m->ncls], 0, sizeof(cls_t));
        k.cls = m->ncls++;
    }
    m->keys = (pkey_t *)realloc(m->keys, sizeof(pkey_t) * (size_t)(m->nkeys + 1));
    m->keys[m->nkeys++] = k;
}

static void model_free(model_t *m)
{
    int i;
    for (i = 0; i < m->ncls; ++i) if (m->cls[i].stored) free(m->cls[i].stored);
    for (i = 0; i < m->nkeys; ++i) free(m->keys[i].bytes);
    free(m->keys); free(m->cls);
    if (m->h) hash_table_free(m->h);
    memset(m, 0, sizeof(*m));
}

/* ---------------- operations: each compares the table's answer with the model ---------------- */
enum { OP_ENTER, OP_REPLACE, OP_DELETE, OP_LOOKUP, OP_EMPTY };

static void classify_unlink(model_t *m, cls_t *c)
{
    /* statistics only: which unlink path will this deletion take? */
    pkey_t *k = &m->keys[c->stored->pool];
    uint32_t b = rep_hash(m, k->bytes, k->len);
    hash_entry_t *e = &m->h->table[b];
    if (e->key == c->stored->bytes) vh_count(e->next ? "delete_head_with_chain" : "delete_head_alone", 1);
    else {
        for (e = e->next; e; e = e->next)
            if (e->key == c->stored->bytes) { vh_count(e->next ? "delete_chain_front_or_middle" : "delete_chain_tail", 1); return; }
        vh_count("delete_position_unknown", 1);
    }
}

static void do_op(model_t *m, int op, int pool, void *val)
{
    pkey_t *k = pool >= 0 ? &m->keys[pool] : NULL;
    cls_t *c = pool >= 0 ? &m->cls[k->cls] : NULL;
    inst_t *in;
    void *r, *got = NULL;
    int32 rc;
    ++m->nops;
    switch (op) {
    case OP_ENTER:
        in = mkinst(m, pool);
        vh_ctx("hash_table_enter");
        r = m->binary ? hash_table_enter_bkey(m->h, in->bytes, k->len, val) : hash_table_enter(m->h, in->bytes, val);
        if (c->live) {
            if (r != c->val) vh_viol("enter_dup_retval", "enter of existing key returned %p, expected old value %p (%s)", r, c->val, fam_name[m->fam]);
            free(in); /* the table keeps the old instance */
        } else {
            if (r != val) vh_viol("enter_new_retval", "enter of new key returned %p, expected %p", r, val);
            c->live = 1; c->val = val; c->stored = in; ++m->nlive;
        }
        vh_count("op_enter", 1);
        break;
    case OP_REPLACE:
        in = mkinst(m, pool);
        vh_ctx("hash_table_replace");
        r = m->binary ? hash_table_replace_bkey(m->h, in->bytes, k->len, val) : hash_table_replace(m->h, in->bytes, val);
        if (c->live) {
            if (r != c->val) vh_viol("replace_retval", "replace of existing key returned %p, expected old value %p", r, c->val);
            free(c->stored); /* documented: the key pointer is replaced too */
            c->stored = in; c->val = val;
            vh_count("op_replace_existing", 1);
        } else {
            if (r != val) vh_viol("replace_new_retval", "replace of absent key returned %p, expected %p", r, val);
            c->live = 1; c->val = val; c->stored = in; ++m->nlive;
            vh_count("op_replace_absent", 1);
        }
        break;
    case OP_DELETE:
        in = mkinst(m, pool);
        if (c->live) classify_unlink(m, c);
        vh_ctx("hash_table_delete");
        r = m->binary ? hash_table_delete_bkey(m->h, in->bytes, k->len) : hash_table_delete(m->h, in->bytes);
        free(in);
        if (c->live) {
            if (r != c->val) vh_viol("delete_retval", "delete returned %p, expected stored value %p", r, c->val);
            c->live = 0; free(c->stored); c->stored = NULL; --m->nlive;
            vh_count("op_delete_live", 1);
        } else {
            if (r != NULL) vh_viol("delete_absent_retval", "delete of absent key returned %p, expected NULL", r);
            vh_count("op_delete_absent", 1);
        }
        break;
    case OP_LOOKUP:
        in = mkinst(m, pool);
        vh_ctx("hash_table_lookup");
        got = (void *)0x5a5a;
        rc = m->binary ? hash_table_lookup_bkey(m->h, in->bytes, k->len, &got) : hash_table_lookup(m->h, in->bytes, &got);
        free(in);
        if (c->live) {
            if (rc != 0) vh_viol("lookup_missing", "lookup of live key failed (rc=%d) [%s, key len %zu]", rc, fam_name[m->fam], k->len);
            else if (got != c->val) vh_viol("lookup_stale", "lookup returned %p, most recently stored value is %p", got, c->val);
            vh_count("op_lookup_live", 1);
        } else {
            if (rc == 0) vh_viol("lookup_ghost", "lookup of absent key succeeded with %p [%s, key len %zu]", got, fam_name[m->fam], k->len);
            vh_count("op_lookup_absent", 1);
        }
        break;
    case OP_EMPTY: {
        int i;
        vh_ctx("hash_table_empty");
        hash_table_empty(m->h);
        for (i = 0; i < m->ncls; ++i)
            if (m->cls[i].live) { m->cls[i].live = 0; free(m->cls[i].stored); m->cls[i].stored = NULL; }
        m->nlive = 0;
        vh_count("op_empty", 1);
        break;
    }
    }
    if (hash_table_inuse(m->h) != m->nlive)
        vh_viol("inuse", "entry count %d after op %d, model has %d live keys", hash_table_inuse(m->h), op, m->nlive);
}

/* full structural check: lookups of every class, iterator and list export */
static void full_check(model_t *m)
{
    int i, n;
    hash_iter_t *it;
    glist_t g; gnode_t *gn; int32 cnt = -1;
    for (i = 0; i < m->nkeys; ++i) {
        /* every spelling of every class */
        pkey_t *k = &m->keys[i]; cls_t *c = &m->cls[k->cls];
        void *got = NULL; int32 rc;
        inst_t *in = mkinst(m, i);
        vh_ctx("hash_table_lookup");
        rc = m->binary ? hash_table_lookup_bkey(m->h, in->bytes, k->len, &got) : hash_table_lookup(m->h, in->bytes, &got);
        free(in);
        if (c->live && (rc != 0 || got != c->val)) vh_viol("lookup_missing", "full check: live key not found or wrong value (rc=%d got=%p want=%p)", rc, got, c->val);
        if (!c->live && rc == 0) vh_viol("lookup_ghost", "full check: absent key found");
    }
    /* iterator */
    for (i = 0; i < m->ncls; ++i) m->cls[i].seen = 0;
    n = 0;
    vh_ctx("hash_table_iter");
    for (it = hash_table_iter(m->h); it; it = hash_table_iter_next(it)) {
        hash_entry_t *e = it->ent; inst_t *in = inst_of(hash_entry_key(e)); cls_t *c;
        ++n;
        if (n > m->nlive + 5) { vh_viol("iter_overrun", "iterator visited more than %d entries", m->nlive); hash_table_iter_free(it); break; }
        if (in->pool < 0 || in->pool >= m->nkeys) { vh_viol("iter_garbage", "iterator returned an unknown key pointer"); continue; }
        c = &m->cls[m->keys[in->pool].cls];
        if (!c->live) vh_viol("iter_dead", "iterator visited a deleted key");
        else {
            if (c->stored != in) vh_viol("iter_wrong_instance", "iterator reports a key instance the table should no longer reference");
            if (hash_entry_val(e) != c->val) vh_viol("iter_value", "iterator value %p != stored %p", hash_entry_val(e), c->val);
            if (hash_entry_len(e) != m->keys[in->pool].len) vh_viol("iter_len", "iterator key length %zu != %zu", hash_entry_len(e), m->keys[in->pool].len);
        }
        if (++c->seen > 1) vh_viol("iter_twice", "iterator visited a key twice");
    }
    for (i = 0; i < m->ncls; ++i) if (m->cls[i].live && m->cls[i].seen != 1) { vh_viol("iter_missed", "iterator missed a live key (visited %d of %d)", n, m->nlive); break; }
    /* list export */
    for (i = 0; i < m->ncls; ++i) m->cls[i].seen = 0;
    vh_ctx("hash_table_tolist");
    g = hash_table_tolist(m->h, &cnt);
    n = 0;
    for (gn = g; gn; gn = gnode_next(gn)) {
        hash_entry_t *e = (hash_entry_t *)gnode_ptr(gn); inst_t *in = inst_of(hash_entry_key(e)); cls_t *c;
        ++n;
        if (in->pool < 0 || in->pool >= m->nkeys) { vh_viol("list_garbage", "list export has an unknown key"); continue; }
        c = &m->cls[m->keys[in->pool].cls];
        if (!c->live) vh_viol("list_dead", "list export contains a deleted key");
        else if (hash_entry_val(e) != c->val) vh_viol("list_value", "list export value mismatch");
        if (++c->seen > 1) vh_viol("list_twice", "list export contains a key twice");
    }
    glist_free(g);
    if (cnt != m->nlive || n != m->nlive) vh_viol("list_count", "list export count=%d nodes=%d, model has %d", cnt, n, m->nlive);
    for (i = 0; i < m->ncls; ++i) if (m->cls[i].live && m->cls[i].seen != 1) { vh_viol("list_missed", "list export missed a live key"); break; }
    vh_count("full_checks", 1);
}

/* ---------------- key pools ---------------- */
static void rand_bytes(vh_rng *r, char *buf, size_t len, int fam)
{
    size_t i;
    for (i = 0; i < len; ++i) {
        int c;
        if (fam == FAM_STR_CASE || fam == FAM_STR_NOCASE) {
            static const char alpha[] = "abcdefghijklmnopqrstuvwxyzABCDEFGHIJKLMNOPQRSTUVWXYZ0123456789_'()-\xc3\xa9\xe2";
            c = alpha[vh_below(r, sizeof(alpha) - 1)];
        } else if (fam == FAM_BIN_CASE) {
            c = vh_chance(r, 0.2) ? 0 : (int)vh_below(r, 256);
        } else { /* binary no-case: no ASCII letters (hash is on raw bytes, comparison case-folded) */
            do c = vh_chance(r, 0.2) ? 0 : (int)vh_below(r, 256); while (isalpha(c) && c < 128);
        }
        buf[i] = (char)c;
    }
    buf[len] = 0;
}

static void build_pool(model_t *m, vh_rng *r, int want, int nbuckets_target)
{
    char buf[80];
    uint32_t targets[8];
    int i, tries = 0;
    for (i = 0; i < nbuckets_target && i < 8; ++i) targets[i] = vh_below(r, (uint32_t)hash_table_size(m->h));
    /* special keys */
    add_key(m, "", 0);
    while (m->nkeys < want && tries < want * 4000) {
        size_t len = (size_t)vh_range(r, 1, vh_chance(r, 0.1) ? 40 : 8);
        int ok = 0, t;
        ++tries;
        rand_bytes(r, buf, len, m->fam);
        if (!m->binary && strlen(buf) != len) continue;
        if (nbuckets_target > 0) {
            uint32_t b = rep_hash(m, buf, len);
            for (t = 0; t < nbuckets_target && t < 8; ++t) if (targets[t] == b) ok = 1;
            if (!ok) continue;
        }
        add_key(m, buf, len);
        /* relatives: a prefix, an extension, a case variant */
        if (vh_chance(r, 0.15) && len > 1) add_key(m, buf, len - 1);
        if (vh_chance(r, 0.15) && len < 70) { buf[len] = m->binary ? 0 : 'x'; buf[len + 1] = 0; add_key(m, buf, len + 1); buf[len] = 0; }
        if (!m->binary && vh_chance(r, 0.3)) {
            size_t j; int changed = 0;
            for (j = 0; j < len; ++j) if (isalpha((unsigned char)buf[j]) && (unsigned char)buf[j] < 128 && vh_chance(r, 0.5)) { buf[j] ^= 0x20; changed = 1; }
            if (changed) add_key(m, buf, len);
        }
    }
}

static void model_init(model_t *m, int fam, int size)
{
    memset(m, 0, sizeof(*m));
    m->fam = fam;
    m->nocase = (fam == FAM_STR_NOCASE || fam == FAM_BIN_NOCASE);
    m->binary = (fam == FAM_BIN_CASE || fam == FAM_BIN_NOCASE);
    m->h = hash_table_new(size, m->nocase ? HASH_CASE_NO : HASH_CASE_YES);
}

/* ---------------- exhaustive short histories ---------------- */
static long exh_histories;
static void exh_apply(model_t *m, int code, long *valctr)
{
    if (code == 12) do_op(m, OP_EMPTY, -1, NULL);
    else do_op(m, code / 3, code % 3, (void *)(size_t)(0x1000 + (++*valctr) * 16));
}
static void exh_rec(int fam, const int *prefix, int nprefix, int depth, int maxdepth, int *hist, pkey_t *keys3)
{
    int code, i;
    if (depth == maxdepth) {
        /* run the whole history on a fresh table */
        model_t m; long vc = 0;
        model_init(&m, fam, 1);
        for (i = 0; i < 3; ++i) add_key(&m, keys3[i].bytes, keys3[i].len);
        for (i = 0; i < depth; ++i) exh_apply(&m, hist[i], &vc);
        full_check(&m);
        model_free(&m);
        ++exh_histories;
        return;
    }
    if (depth < nprefix) { hist[depth] = prefix[depth]; exh_rec(fam, prefix, nprefix, depth + 1, maxdepth, hist, keys3); return; }
    for (code = 0; code < NOPS_EXH; ++code) { hist[depth] = code; exh_rec(fam, prefix, nprefix, depth + 1, maxdepth, hist, keys3); }
}

static void run_exhaustive(long i, vh_rng *r)
{
    /* three distinct keys in one bucket, family rotates with the case index */
    int fam = (int)(i / NPREFIX);
    int maxdepth = vh_tier ? 6 : 5;
    model_t tmp; pkey_t keys3[3]; int prefix[2], hist[8], k;
    model_init(&tmp, fam, 1);
    build_pool(&tmp, r, 12, 1);
    if (tmp.ncls < 4) { vh_inconc("could not construct 3 colliding keys"); model_free(&tmp); return; }
    /* pick three keys of different classes, skipping the empty key at index 0 */
    { int got = 0, j; for (j = 1; j < tmp.nkeys && got < 3; ++j) { int dup = 0, q; for (q = 0; q < got; ++q) if (keys3[q].cls == tmp.keys[j].cls) dup = 1; if (!dup) keys3[got++] = tmp.keys[j]; }
      if (got < 3) { vh_inconc("could not construct 3 colliding keys"); model_free(&tmp); return; } }
    prefix[0] = (int)((i % NPREFIX) / NOPS_EXH); prefix[1] = (int)((i % NPREFIX) % NOPS_EXH);
    exh_histories = 0;
    vh_desc("exhaustive: all histories of length %d starting with ops (%d,%d) over 3 keys sharing a bucket, %s", maxdepth, prefix[0], prefix[1], fam_name[fam]);
    for (k = 2; k <= maxdepth; ++k) /* all lengths 2..maxdepth with this prefix */
        exh_rec(fam, prefix, 2, 0, k, hist, keys3);
    vh_count("exhaustive_histories", exh_histories);
    vh_nontrivial("exh/%ld", i);
    if (i == 5) vh_sample("exhaustive prefix (%d,%d), %s: %ld complete histories of length 2..%d over 3 colliding keys, every one followed by a full lookup/iterator/list check", prefix[0], prefix[1], fam_name[fam], exh_histories, maxdepth);
    model_free(&tmp);
}

/* ---------------- random histories ---------------- */
static void run_random(long i, vh_rng *r)
{
    model_t m;
    int fam = (int)vh_below(r, NFAM);
    int size = VH_PICK(r, ((int[]){ 1, 1, 1, 50, 200, 1000 }));
    int want = VH_PICK(r, ((int[]){ 4, 12, 60, 600, 1500, 3000 }));
    int nb = VH_PICK(r, ((int[]){ 0, 0, 1, 2, 5 }));
    long nops = vh_tier ? 40000 : 12000, k;
    int every = vh_range(r, 50, 2000);
    long vc = 0;
    uint64_t hsig = VH_H0;
    model_init(&m, fam, size);
    if (nb > 0 && want > 600) want = 600;
    build_pool(&m, r, want, nb);
    vh_desc("random history: %s, hash_table_new(%d) -> %d buckets, %d keys in %d equality classes, %d target buckets, %ld ops, full check every %d",
            fam_name[fam], size, hash_table_size(m.h), m.nkeys, m.ncls, nb, nops, every);
    for (k = 0; k < nops; ++k) {
        int pool = (int)vh_below(r, (uint32_t)m.nkeys);
        double u = vh_unit(r);
        int op = u < 0.40 ? OP_ENTER : u < 0.50 ? OP_REPLACE : u < 0.75 ? OP_DELETE : u < 0.9995 ? OP_LOOKUP : OP_EMPTY;
        do_op(&m, op, pool, (void *)(size_t)(0x1000 + (++vc) * 16));
        hsig = vh_hash(&op, sizeof(op), hsig); hsig = vh_hash(&pool, sizeof(pool), hsig);
        if (k % every == every - 1) full_check(&m);
    }
    full_check(&m);
    vh_max("max_live_keys", m.nlive);
    {
        /* longest chain actually present (statistics) */
        int b, longest = 0;
        for (b = 0; b < hash_table_size(m.h); ++b) { int n = 0; hash_entry_t *e = &m.h->table[b]; if (e->key) for (; e; e = e->next) ++n; if (n > longest) longest = n; }
        vh_max("max_chain_length", longest);
    }
    vh_count(fam == FAM_STR_CASE ? "histories_string_case" : fam == FAM_STR_NOCASE ? "histories_string_nocase" : fam == FAM_BIN_CASE ? "histories_binary_case" : "histories_binary_nocase", 1);
    vh_nontrivial("rnd/%016llx", (unsigned long long)hsig);
    vh_sample("random history #%ld: %s, %d buckets, %d keys/%d classes, %ld ops, ended with %d live keys", i, fam_name[fam], hash_table_size(m.h), m.nkeys, m.ncls, nops, m.nlive);
    /* emptying and freeing must release every chain entry (LSan sees what is left) */
    do_op(&m, OP_EMPTY, -1, NULL);
    model_free(&m);
}

static void run(long i, vh_rng *r)
{
    if (i < NEXH) run_exhaustive(i, r);
    else run_random(i, r);
    if (vh_have_lsan() && (i % 64) == 63 && vh_leak_check())
        vh_viol("LSAN", "leak after freeing the table");
}

static const vh_harness H = { "h_hash", ncases, setup, run, NULL, 600 };
int main(int argc, char **argv) { return vh_main(argc, argv, &H); }
