/* h_fe.c -- C06: acoustic features do not depend on how the audio is chunked or encoded.
 *
 * Differential monitor.  Reference = ONE fe_process_int16() call with ample output space,
 * then fe_end().  Every variant feeds the same samples through the documented calling loop
 *
 *        while (nsamps) nfr = fe_process_*(fe, &p, &nsamps, buf, LIMIT);   ...   fe_end()
 *
 * with a different partition into chunks, a different per-call output limit LIMIT and a
 * different sample encoding, and must produce the bit-identical frame sequence, the same
 * number of frames, and consume every sample exactly once.  The frame count of the
 * reference must equal the closed form in the total number of samples.
 */
#include "vh.h"
#include <math.h>
#include <soundswallower/fe.h>
#include <soundswallower/config_defs.h>
#include <soundswallower/configuration.h>
#include <soundswallower/ckd_alloc.h>
#include <soundswallower/err.h>

static int16_t *speech; static size_t nspeech;

static long ncases(int tier, long req) { if (req >= 0) return req; return tier ? 12000 : 500; }
static void setup(void)
{
    size_t n = 0;
    err_set_loglevel(ERR_FATAL);
    speech = (int16_t *)vh_read_file(vh_path("%s/tests/data/goforward.raw", vh_repo), &n);
    nspeech = n / 2;
}

typedef struct fecfg {
    int samprate, frate, nfft, lifter, remove_noise, remove_dc, logspec, smoothspec, nfilt, ncep;
    double wlen, alpha, upperf, lowerf;
    int other_endian;   /* samples are supplied in the non-native byte order and input_endian says so */
    const char *transform;
} fecfg_t;

static fe_t *make_fe(const fecfg_t *c)
{
    config_t *cf = config_init(NULL);
    fe_t *fe;
    config_set_int(cf, "samprate", c->samprate);
    config_set_int(cf, "frate", c->frate);
    config_set_float(cf, "wlen", c->wlen);
    config_set_int(cf, "nfft", c->nfft);
    config_set_str(cf, "transform", c->transform);
    config_set_int(cf, "lifter", c->lifter);
    config_set_bool(cf, "remove_noise", c->remove_noise);
    config_set_bool(cf, "remove_dc", c->remove_dc);
    config_set_bool(cf, "logspec", c->logspec);
    config_set_bool(cf, "smoothspec", c->smoothspec);
    config_set_int(cf, "nfilt", c->nfilt);
    config_set_int(cf, "ncep", c->ncep);
    config_set_float(cf, "alpha", c->alpha);
    config_set_float(cf, "upperf", c->upperf);
    config_set_float(cf, "lowerf", c->lowerf);
    config_set_bool(cf, "dither", 0);
    if (c->other_endian) { union { uint16_t u; unsigned char b[2]; } e; e.u = 1; config_set_str(cf, "input_endian", e.b[0] ? "big" : "little"); }
    vh_ctx("fe_init");
    fe = fe_init(cf);
    config_free(cf);
    return fe;
}

static void random_cfg(vh_rng *r, fecfg_t *c)
{
    c->other_endian = 0;
    static const int rates[] = { 8000, 16000, 16000, 44100, 11025 };
    static const int frates[] = { 100, 100, 50, 200, 125 };
    static const double wlens[] = { 0.025625, 0.025625, 0.02, 0.032, 0.01, 0.05 };
    static const char *tr[] = { "legacy", "dct", "htk" };
    c->samprate = VH_PICK(r, rates);
    c->frate = VH_PICK(r, frates);
    c->wlen = VH_PICK(r, wlens);
    c->nfft = VH_PICK(r, ((int[]){ 0, 0, 512, 1024, 2048, 4096 }));
    c->transform = VH_PICK(r, tr);
    c->lifter = vh_chance(r, 0.5) ? 0 : 22;
    c->remove_noise = vh_chance(r, 0.5);
    c->remove_dc = vh_chance(r, 0.4);
    c->logspec = vh_chance(r, 0.15);
    c->smoothspec = vh_chance(r, 0.15);
    c->nfilt = VH_PICK(r, ((int[]){ 40, 40, 25, 20, 31 }));
    c->ncep = VH_PICK(r, ((int[]){ 13, 13, 13, 12, 9 }));
    c->alpha = vh_chance(r, 0.2) ? 0.0 : 0.97;
    c->lowerf = c->samprate <= 11025 ? 200.0 : 133.33334;
    c->upperf = c->samprate == 8000 ? 3500.0 : c->samprate == 11025 ? 5000.0 : 6855.4976;
}

typedef struct frames { float *v; int n, cap, dim; } frames_t;
static void frames_add(frames_t *f, mfcc_t **buf, int k)
{
    int i;
    for (i = 0; i < k; ++i) {
        if (f->n == f->cap) { f->cap = f->cap ? f->cap * 2 : 256; f->v = (float *)realloc(f->v, sizeof(float) * (size_t)f->cap * (size_t)f->dim); }
        memcpy(f->v + (size_t)f->n * (size_t)f->dim, buf[i], sizeof(float) * (size_t)f->dim);
        ++f->n;
    }
}

static void gen_signal(vh_rng *r, int16_t *s, long n)
{
    long j;
    int kind = (int)vh_below(r, 8);
    switch (kind) {
    case 0: case 1: case 2: { long off = nspeech ? (long)vh_below(r, (uint32_t)nspeech) : 0; for (j = 0; j < n; ++j) s[j] = nspeech ? speech[(off + j) % (long)nspeech] : (int16_t)(j * 37); break; }
    case 3: { int amp = vh_range(r, 1, 32767); for (j = 0; j < n; ++j) s[j] = (int16_t)vh_range(r, -amp, amp); break; }
    case 4: for (j = 0; j < n; ++j) s[j] = 0; if (n) s[vh_below(r, (uint32_t)n)] = 32767; break;
    case 5: for (j = 0; j < n; ++j) s[j] = (int16_t)(((j / 37) & 1) ? 32767 : -32768); break;
    case 6: for (j = 0; j < n; ++j) s[j] = (int16_t)(12000.0 * sin(j * 0.05) + 300); break;
    default: for (j = 0; j < n; ++j) s[j] = (int16_t)vh_range(r, -2, 2); break;
    }
}

static long pick_len(vh_rng *r, int size, int shift)
{
    long maxn = vh_tier ? 100000 : 40000;
    switch (vh_below(r, 10)) {
    case 0: return VH_PICK(r, ((long[]){ 0, 1, 2 }));
    case 1: return size + (long)vh_range(r, -2, 2);
    case 2: return size + (long)shift * vh_range(r, 0, 12) + vh_range(r, -1, 1);
    case 3: return (long)vh_range(r, 1, size);
    case 4: return size + (long)shift * vh_range(r, 1, 40);
    case 5: return (long)vh_range(r, 30000, (int)maxn);
    default: return (long)vh_range(r, 0, 9000);
    }
}

static int bits_equal(const float *a, const float *b, size_t n) { return n == 0 || memcmp(a, b, n * sizeof(float)) == 0; }

static void run(long i, vh_rng *r)
{
    fecfg_t c; fe_t *fe;
    int shift, size, dim, nvar, v, tries = 0;
    long N, j;
    int16_t *sig, *sig_sw = NULL; float *fsig, *fsig_sw = NULL; fe_t *fe_sw = NULL;
    frames_t ref; mfcc_t **buf;
    long expect;
    uint64_t sigh;

    do { random_cfg(r, &c); fe = make_fe(&c); } while (!fe && ++tries < 40);
    if (!fe) { vh_inconc("no accepted front-end configuration"); return; }
    fe_get_input_size(fe, &shift, &size);
    dim = fe_get_output_size(fe);
    N = pick_len(r, size, shift);
    if (N < 0) N = 0;
    sig = (int16_t *)malloc(sizeof(int16_t) * (size_t)(N + 1));
    fsig = (float *)malloc(sizeof(float) * (size_t)(N + 1));
    gen_signal(r, sig, N);
    for (j = 0; j < N; ++j) fsig[j] = (float)sig[j] / 32768.0f;
    vh_desc("samprate=%d frate=%d wlen=%g nfft=%d transform=%s lifter=%d remove_noise=%d remove_dc=%d logspec=%d smoothspec=%d nfilt=%d ncep=%d alpha=%g -> frame_size=%d frame_shift=%d dim=%d; N=%ld samples",
            c.samprate, c.frate, c.wlen, c.nfft, c.transform, c.lifter, c.remove_noise, c.remove_dc, c.logspec, c.smoothspec, c.nfilt, c.ncep, c.alpha, size, shift, dim, N);

    /* ---- reference: one call, ample output ---- */
    memset(&ref, 0, sizeof(ref)); ref.dim = dim;
    {
        int room = (int)(N / shift) + 8, k;
        int16_t *p = sig; size_t n = (size_t)N;
        buf = (mfcc_t **)ckd_calloc_2d((size_t)room, (size_t)dim, sizeof(mfcc_t));
        fe_start(fe);
        vh_ctx("fe_process_int16(reference)");
        k = fe_process_int16(fe, &p, &n, buf, room);
        if (k < 0) { vh_viol("ref_error", "reference fe_process_int16 returned %d", k); k = 0; }
        frames_add(&ref, buf, k);
        if (n != 0 || p != sig + N) vh_viol("ref_not_consumed", "single call with ample output left %zu of %ld samples", n, N);
        vh_ctx("fe_end(reference)");
        k = fe_end(fe, buf, room);
        frames_add(&ref, buf, k);
        ckd_free_2d(buf);
    }
    if (N < size) expect = N > 0;
    else { long F = 1 + (N - size) / shift, rem = (N - size) % shift; expect = F + ((size - shift + rem) > 0); }
    if (ref.n != expect)
        vh_viol("frame_count_formula", "N=%ld size=%d shift=%d: %d frames produced, closed form says %ld", N, size, shift, ref.n, expect);
    for (j = 0; j < (long)ref.n * dim; ++j) if (!isfinite(ref.v[j])) { vh_count("nonfinite_reference_values", 1); break; }

    /* ---- variants ---- */
    nvar = vh_tier ? 8 : 6;
    buf = (mfcc_t **)ckd_calloc_2d(64, (size_t)dim, sizeof(mfcc_t));
    sigh = vh_hash(&N, sizeof(N), VH_H0);
    for (v = 0; v < nvar; ++v) {
        frames_t got; long pos = 0, consumed = 0, ncalls = 0;
        int isfloat = (int)vh_below(r, 2);
        int limit = vh_chance(r, 0.35) ? 64 : vh_range(r, 1, 8);
        int style = (int)vh_below(r, 8);
        int end_room = VH_PICK(r, ((int[]){ 1, 1, 2, 5, 64 })); /* fe_end writes at most one trailing frame */
        long fixed = 0;
        int stuck = 0;
        char vdesc[200];
        /* the same samples in the other byte order, through a front end told so (created on first use) */
        int swapv = vh_chance(r, 0.15); fe_t *vfe = fe; int16_t *vsig = sig; float *vfsig = fsig;
        if (swapv && !fe_sw) {
            fecfg_t c2 = c; long q; c2.other_endian = 1; fe_sw = make_fe(&c2);
            sig_sw = (int16_t *)malloc(sizeof(int16_t) * (size_t)(N + 1)); fsig_sw = (float *)malloc(sizeof(float) * (size_t)(N + 1));
            for (q = 0; q < N; ++q) { unsigned char *d = (unsigned char *)&sig_sw[q], *o = (unsigned char *)&sig[q]; d[0] = o[1]; d[1] = o[0]; d = (unsigned char *)&fsig_sw[q]; o = (unsigned char *)&fsig[q]; d[0] = o[3]; d[1] = o[2]; d[2] = o[1]; d[3] = o[0]; }
        }
        if (swapv && fe_sw) { vfe = fe_sw; vsig = sig_sw; vfsig = fsig_sw; vh_count("variants_other_byte_order", 1); } else swapv = 0;
        memset(&got, 0, sizeof(got)); got.dim = dim;
        switch (style) {
        case 0: fixed = 1; if (N > 6000) fixed = 3; break;
        case 1: fixed = VH_PICK(r, ((long[]){ 2, 7, 13 })); if (N > 20000) fixed = 13; break;
        case 2: fixed = shift + vh_range(r, -1, 1); break;
        case 3: fixed = size + vh_range(r, -1, 1); break;
        case 4: fixed = VH_PICK(r, ((long[]){ 256, 1024, 2048, 4096 })); break;
        case 5: fixed = 33000 + (long)vh_below(r, 30000); break;   /* far larger than any internal buffer */
        default: fixed = 0; break;                                  /* random chunk lengths */
        }
        if (fixed < 1 && style < 6) fixed = 1;
        snprintf(vdesc, sizeof(vdesc), "%s%s chunks=%s%ld limit=%d fe_end_room=%d", swapv ? "byte-swapped " : "", isfloat ? "float32" : "int16", fixed ? "fixed:" : "random", fixed, limit, end_room);
        fe_start(vfe);
        while (pos < N && !stuck) {
            long len = fixed ? fixed : (vh_chance(r, 0.3) ? vh_range(r, 1, 5) : vh_chance(r, 0.5) ? vh_range(r, 1, 2 * size) : vh_range(r, 1, 20000));
            size_t n; int16_t *p16; float *pf; long guard = 0;
            if (pos + len > N) len = N - pos;
            n = (size_t)len; p16 = vsig + pos; pf = vfsig + pos;
            /* the documented loop */
            while (n) {
                size_t before = n; int k;
                vh_ctx(isfloat ? "fe_process_float32" : "fe_process_int16");
                if (isfloat) k = fe_process_float32(vfe, &pf, &n, buf, limit);
                else k = fe_process_int16(vfe, &p16, &n, buf, limit);
                ++ncalls;
                if (k < 0 || k > limit) { vh_viol("bad_return", "fe_process returned %d with limit %d (%s)", k, limit, vdesc); stuck = 1; break; }
                if (n > before) { vh_viol("nsamps_grew", "remaining samples grew from %zu to %zu (%s)", before, n, vdesc); stuck = 1; break; }
                if ((isfloat ? (long)(pf - (vfsig + pos)) : (long)(p16 - (vsig + pos))) != (long)(len - (long)n)) { vh_viol("pointer_count_mismatch", "pointer advanced inconsistently with the remaining count (%s)", vdesc); stuck = 1; break; }
                frames_add(&got, buf, k);
                if (k == 0 && n == before && ++guard > 3) { vh_viol("no_progress", "fe_process made no progress with %zu samples left (%s)", n, vdesc); stuck = 1; break; }
                if (k == limit && limit < 64) vh_count("calls_output_limited", 1);
                if (n > 32767 && k == limit) vh_count("calls_leaving_more_than_32767_samples", 1);
            }
            consumed += len - (long)n;
            pos += len;
        }
        if (!stuck) {
            int k;
            vh_ctx("fe_end");
            k = fe_end(vfe, buf, end_room);
            frames_add(&got, buf, k);
            if (consumed != N) vh_viol("not_all_consumed", "%ld of %ld samples consumed (%s)", consumed, N, vdesc);
            if (got.n != ref.n) {
                /* class of the failing input, computed from the input itself */
                long tail = N >= size ? (N - size) % shift : -1;
                vh_viol(got.n < ref.n ? "frame_count_fewer" : "frame_count_more",
                        "%d frames vs %d in the one-call reference (N=%ld size=%d shift=%d, (N-size)%%shift=%ld; %s)", got.n, ref.n, N, size, shift, tail, vdesc);
            } else if (!bits_equal(got.v, ref.v, (size_t)ref.n * (size_t)dim)) {
                int f = 0, d = 0;
                for (f = 0; f < ref.n; ++f) { for (d = 0; d < dim; ++d) if (memcmp(&got.v[f * dim + d], &ref.v[f * dim + d], sizeof(float))) break; if (d < dim) break; }
                vh_viol(isfloat ? "frames_differ_float32" : "frames_differ_int16", "frame %d of %d differs from the one-call reference at coefficient %d: %.9g vs %.9g (%s)",
                        f, ref.n, d, got.v[f * dim + d], ref.v[f * dim + d], vdesc);
            }
            vh_count("variant_runs", 1);
            vh_count("variant_frames_compared", got.n);
            vh_count(isfloat ? "variants_float32" : "variants_int16", 1);
            vh_count(fixed == 0 ? "variants_random_chunks" : fixed <= 13 ? "variants_tiny_chunks" : fixed >= 33000 ? "variants_huge_chunks" : "variants_frame_sized_chunks", 1);
            vh_max("max_calls_in_a_variant", ncalls);
        }
        sigh = vh_hash(vdesc, strlen(vdesc), sigh);
        if (i % 50 == 7 && v == 0) vh_sample("case %ld: samprate=%d frate=%d wlen=%g nfft=%d %s remove_noise=%d: N=%ld -> %d reference frames; variant [%s] -> %d frames in %ld calls", i, c.samprate, c.frate, c.wlen, c.nfft, c.transform, c.remove_noise, N, ref.n, vdesc, got.n, ncalls);
        free(got.v);
    }
    ckd_free_2d(buf);
    if (ref.n > 0) vh_nontrivial("%016llx", (unsigned long long)sigh);
    free(ref.v); free(sig); free(fsig); free(sig_sw); free(fsig_sw);
    fe_free(fe); if (fe_sw) fe_free(fe_sw);
    if (vh_have_lsan() && (i % 100) == 99 && vh_leak_check()) vh_viol("LSAN", "leak after fe_free");
}

static const vh_harness H = { "h_fe", ncases, setup, run, NULL, 300 };
int main(int argc, char **argv) { return vh_main(argc, argv, &H); }
