/* vfsa.h -- reference weighted finite-state acceptor used by the grammar oracles.
 *
 * Deliberately naive: an arc array, Bellman-Ford epsilon relaxation to a fix point, subset
 * simulation.  It shares no code and no data structure with fsg_model.c.
 */
#ifndef VFSA_H
#define VFSA_H
#include <stdint.h>
#include <soundswallower/fsg_model.h>

#define VF_EPS (-1)
#define VF_NEG (INT64_MIN / 4)

typedef struct varc { int from, to, label; int64_t w; } varc;
typedef struct vfsa {
    int n_state, start, final;
    varc *arcs; int narcs, cap;
    char **labels; int nlabels, caplabels;
} vfsa;

void vfsa_init(vfsa *f, int n_state, int start, int final);
void vfsa_free(vfsa *f);
int vfsa_label(vfsa *f, const char *name);           /* intern, returns label id */
int vfsa_find_label(const vfsa *f, const char *name); /* -1 if unknown */
void vfsa_add(vfsa *f, int from, int to, int label, int64_t w);

/* read every arc of a library model through fsg_model_arcs().
 * flags: VF_MAP_ALT   "w(n)" is interned as "w"
 *        VF_FILLER_EPS arcs whose word the model marks as filler become epsilon arcs
 *        VF_DROP_NULLWORD (unused) */
#define VF_MAP_ALT 1
#define VF_FILLER_EPS 2
int vfsa_from_model(fsg_model_t *fsg, vfsa *out, int flags);

/* number of strings of length <= maxlen over nsym symbols */
long vfsa_table_size(int nsym, int maxlen);
/* index of a string in the table */
long vfsa_table_index(int nsym, const int *str, int len);
void vfsa_table_string(int nsym, long idx, int *str, int *len);

/* best (max-plus) weight of every string of length <= maxlen over the given label ids,
 * start -> final.  eps_full != 0: epsilon arcs relaxed to a fix point (any chain);
 * eps_full == 0: at most ONE epsilon arc between consecutive words (and before the first /
 * after the last), which is how the search uses a closed grammar. */
void vfsa_table(const vfsa *f, int nsym, const int *syms, int maxlen, int eps_full, int64_t *out);

/* boolean acceptance of one label sequence (labels are ids of this vfsa; an id of -2 or an
 * unknown label never matches).  need_final = 1: start -> final; 0: some path from start. */
int vfsa_accepts(const vfsa *f, const int *labels, int n, int need_final);

/* state-set primitives for walking (bit per state, n_state <= 64*VF_SETW) */
#define VF_SETW 8
typedef struct vset { uint64_t b[VF_SETW]; } vset;
void vset_clear(vset *s);
int vset_empty(const vset *s);
void vset_add(vset *s, int i);
int vset_has(const vset *s, int i);
void vfsa_eps_closure(const vfsa *f, vset *s);
void vfsa_step(const vfsa *f, const vset *in, int label, vset *out); /* out = eps-closure(move(in,label)) */

/* canonical dump of the arcs, sorted, for multiset comparison */
uint64_t vfsa_arcs_hash(const vfsa *f, int with_weights);
int vfsa_same_arcs(const vfsa *a, const vfsa *b, int with_weights, char *why, int whylen);

#endif
