/* h_decode.c -- decoder-level result monitors over generated decode scenarios.
 * VH_SOURCES: vfsa.c vdec.c vjson.c
 *
 *   --x-monitor C01   recognition results are sentences of the active grammar (final + partial)
 *   --x-monitor C03   segmentation tiles the utterance, agrees with hypothesis, score, frame counts
 *   --x-monitor C11   lattice: well-formed, time-consistent graph of grammar paths
 *   --x-monitor C12   N-best order, best path, posteriors, forward/backward conservation
 *   --x-monitor C14   JSON result well-formed and equal to what the iterators say
 *
 * One case = one scenario (model, search parameters, grammar with generator-side truth, audio,
 * calling pattern); the selected monitor observes partial results at random points and the final
 * result.  All monitors share the scenario generator (vdec.c) so the same diversity reaches each.
 */
#include "vh.h"
#include "vfsa.h"
#include "vdec.h"
#include "vjson.h"
#include <math.h>
#include <soundswallower/lattice.h>
#include <soundswallower/alignment.h>
#include <soundswallower/fe.h>
#include <soundswallower/err.h>
#include <soundswallower/fsg_search.h>
#include <soundswallower/fsg_history.h>

enum { M_C01 = 1, M_C03 = 2, M_C11 = 4, M_C12 = 8, M_C14 = 16 };
static int MON = M_C01;

typedef struct ctx {
    decoder_t *d; vd_gram *g; vd_cfg cfg; vd_search sp; const vd_audio *a; vh_rng *r;
    int fe_shift, fe_size, frate;
    int nfinal_words; int partials;
    char tag[64];
} ctx;

static long ncases(int tier, long req)
{
    if (req >= 0) return req;
    return tier ? 20000 : 600;
}
static void setup(void)
{
    const char *m = vh_arg("monitor", "C01");
    err_set_loglevel(ERR_FATAL);
    MON = !strcmp(m, "C01") ? M_C01 : !strcmp(m, "C03") ? M_C03 : !strcmp(m, "C11") ? M_C11 : !strcmp(m, "C12") ? M_C12 : !strcmp(m, "C14") ? M_C14 : M_C01;
    vd_init();
}

static long expected_frames(const ctx *c, long n)
{
    long F, rem;
    if (n < c->fe_size) return n > 0;
    F = 1 + (n - c->fe_size) / c->fe_shift; rem = (n - c->fe_size) % c->fe_shift;
    return F + ((c->fe_size - c->fe_shift + rem) > 0);
}

/* words of a segmentation, normalised per C01: nulls and fillers dropped, alternates -> base */
static int norm_words(const vd_result *res, const vfsa *truth, int *labels, char *joined, size_t jn, int maxn)
{
    int i, n = 0; size_t o = 0;
    if (joined) joined[0] = 0;
    for (i = 0; i < res->nseg; ++i) {
        char base[128];
        const char *w = res->seg[i].word;
        if (!strcmp(w, "(NULL)") || vd_is_filler_word(w)) continue;
        vd_base_word(w, base, sizeof(base));
        if (n < maxn) { int l = vfsa_find_label(truth, base); labels[n] = l < 0 ? -2 : l; }
        ++n;
        if (joined && o + strlen(base) + 2 < jn) o += (size_t)snprintf(joined + o, jn - o, "%s%s", o ? " " : "", base);
    }
    return n;
}

/* ============================= C01 ============================= */
/* the hypothesis string with filler words removed (C01 speaks of both the string and the segmentation "with fillers removed";
 * that the string contains no filler in the first place is C03's clause) */
static const char *hyp_without_fillers(const vd_result *res, char *buf, size_t n)
{
    const char *p = res->has_hyp ? res->hyp : ""; size_t o = 0; buf[0] = 0;
    while (*p) { const char *e; char tok[400]; while (*p == ' ') ++p; if (!*p) break; e = p; while (*e && *e != ' ') ++e; snprintf(tok, sizeof(tok), "%.*s", (int)(e - p < 399 ? e - p : 399), p); if (!vd_is_filler_word(tok) && o + strlen(tok) + 2 < n) o += (size_t)snprintf(buf + o, n - o, "%s%s", o ? " " : "", tok); p = e; }
    return buf;
}
static void mon_c01(ctx *c, int final, const vd_result *res)
{
    int labels[256], n; char joined[4096], hnf[4096];
    n = norm_words(res, &c->g->truth, labels, joined, sizeof(joined), 256);
    if (n > 256) { vh_inconc("more than 256 words in a result"); return; }
    hyp_without_fillers(res, hnf, sizeof(hnf));
    if (final) {
        if (res->nseg == 0 && !res->has_hyp) { vh_count("final_no_hypothesis", 1); return; }
        /* hypothesis string and segmentation must agree on the words */
        if (strcmp(hnf, joined) != 0)
            vh_viol("hyp_seg_word_mismatch", "final hypothesis \"%s\" but the segmentation's words are \"%s\" [%s]", res->has_hyp ? res->hyp : "(none)", joined, c->g->desc);
        if (vfsa_accepts(&c->g->truth, labels, n, 1) != 1)
            vh_viol(vh_path("final_not_a_sentence|%s", vd_gram_kind_name(c->g->kind)), "final result \"%s\" is not accepted start->final by the active grammar\n%.900s", joined, c->g->text.s);
        vh_count("final_results_checked", 1);
        if (n == 0) vh_count("final_results_fillers_or_nulls_only", 1);
        c->nfinal_words = n;
    } else {
        if (res->nseg == 0 && !res->has_hyp) { vh_count("partial_no_hypothesis", 1); return; }
        if (strcmp(hnf, joined) != 0)
            vh_viol("hyp_seg_word_mismatch", "partial hypothesis \"%s\" but the segmentation's words are \"%s\"", res->has_hyp ? res->hyp : "(none)", joined);
        if (vfsa_accepts(&c->g->truth, labels, n, 0) != 1)
            vh_viol(vh_path("partial_not_a_path|%s", vd_gram_kind_name(c->g->kind)), "partial result \"%s\" labels no path leaving the grammar's start state\n%.900s", joined, c->g->text.s);
        vh_count("partial_results_checked", 1);
    }
}

/* ============================= C03 ============================= */
static void mon_c03(ctx *c, int final, const vd_result *res, long frames_searched)
{
    int i, prev_ef = -1, nreal = 0; long sum = 0; char joined[4096]; int labels[4];
    const char *fin = final ? "final" : "partial";
    for (i = 0; i < res->nseg; ++i) {
        const vd_seg *s = &res->seg[i];
        sum += (long)s->ascr + (long)s->lscr;
        if (!strcmp(s->word, "(NULL)")) {
            if (s->sf != prev_ef || s->ef != prev_ef)
                vh_viol("null_segment_moves_time", "%s: null segment %d spans [%d,%d], the preceding word ended at %d", fin, i, s->sf, s->ef, prev_ef);
            if (s->ascr != 0) vh_viol("null_segment_ascr", "%s: null segment %d has acoustic score %d", fin, i, s->ascr);
            vh_count("null_segments_seen", 1);
            continue;
        }
        if (nreal == 0 && s->sf != 0) vh_viol("first_segment_not_at_zero", "%s: first word segment %s starts at frame %d", fin, s->word, s->sf);
        if (nreal > 0 && s->sf != prev_ef + 1) vh_viol("segments_not_contiguous", "%s: segment %d (%s) starts at %d, previous ended at %d", fin, i, s->word, s->sf, prev_ef);
        if (s->ef < s->sf) vh_viol("segment_empty", "%s: segment %d (%s) spans [%d,%d]", fin, i, s->word, s->sf, s->ef);
        if ((long)s->ef >= frames_searched) vh_viol("segment_past_frames_searched", "%s: segment %d (%s) ends at frame %d but only %ld frames were searched", fin, i, s->word, s->ef, frames_searched);
        prev_ef = s->ef; ++nreal;
        vh_count("word_segments_seen", 1);
    }
    norm_words(res, &c->g->truth, labels, joined, sizeof(joined), 0);
    if (strcmp(res->has_hyp ? res->hyp : "", joined) != 0)
        vh_viol("hyp_string_mismatch", "%s: hypothesis \"%s\" but base forms of the non-filler segments are \"%s\"", fin, res->has_hyp ? res->hyp : "(none)", joined);
    if (res->nseg > 0 && (long)res->score != sum)
        vh_viol("scores_do_not_sum", "%s: segment scores sum to %ld, reported path score %d (%d segments)", fin, sum, res->score, res->nseg);
    if (res->nseg > 0) vh_count(final ? "final_segmentations_checked" : "partial_segmentations_checked", 1);
}

/* ============================= C11 / C12 ============================= */
typedef struct lnode { latnode_t *p; int sf, fef, lef; const char *word, *base; int nin, nout, *in, *out; int synth; int indeg_left, order; vset S; int fw, bw; double ealpha, ebeta; } lnode;
typedef struct llink { latlink_t *p; int from, to, ef; int32 ascr; } llink;
typedef struct lgraph { lattice_t *dag; lnode *n; int nn; llink *l; int nl; int start, end, nframes; int *topo; int acyclic; } lgraph;

static int node_cmp(const void *a, const void *b) { const lnode *x = (const lnode *)a, *y = (const lnode *)b; return x->p < y->p ? -1 : x->p > y->p; }
static int node_idx(const lgraph *g, latnode_t *p)
{
    int lo = 0, hi = g->nn - 1;
    while (lo <= hi) { int m = (lo + hi) / 2; if (g->n[m].p == p) return m; if (g->n[m].p < p) lo = m + 1; else hi = m - 1; }
    return -1;
}
static void lgraph_free(lgraph *g) { int i; for (i = 0; i < g->nn; ++i) { free(g->n[i].in); free(g->n[i].out); } free(g->n); free(g->l); free(g->topo); memset(g, 0, sizeof(*g)); }

/* read the whole lattice through the public iterators; returns 0, or -1 after reporting a structural violation */
static int lgraph_read(lgraph *g, lattice_t *dag)
{
    latnode_iter_t *ni; int cap = 0, i, lcap = 0;
    memset(g, 0, sizeof(*g));
    g->dag = dag; g->nframes = lattice_n_frames(dag);
    for (ni = ps_latnode_iter(dag); ni; ni = ps_latnode_iter_next(ni)) {
        latnode_t *nd = ps_latnode_iter_node(ni); int16 fef, lef; lnode *x;
        if (g->nn == cap) { cap = cap ? cap * 2 : 256; g->n = (lnode *)realloc(g->n, sizeof(lnode) * (size_t)cap); }
        x = &g->n[g->nn++]; memset(x, 0, sizeof(*x));
        x->p = nd; x->sf = latnode_times(nd, &fef, &lef); x->fef = fef; x->lef = lef;
        x->word = ps_latnode_word(dag, nd); x->base = ps_latnode_baseword(dag, nd);
        if (g->nn > 200000) { vh_inconc("lattice larger than 200000 nodes"); return -1; }
    }
    qsort(g->n, (size_t)g->nn, sizeof(lnode), node_cmp);
    for (i = 1; i < g->nn; ++i) if (g->n[i].p == g->n[i - 1].p) { vh_viol("node_listed_twice", "the node iterator returned the same node twice"); return -1; }
    g->start = node_idx(g, dag->start); g->end = node_idx(g, dag->end);
    if (g->start < 0 || g->end < 0) { vh_viol("start_or_end_not_in_node_list", "lattice start/end node is not among the %d nodes the iterator returns (start %s, end %s)", g->nn, g->start < 0 ? "missing" : "ok", g->end < 0 ? "missing" : "ok"); return -1; }
    /* links: collected from exits, cross-checked with entries */
    for (i = 0; i < g->nn; ++i) {
        latlink_iter_t *li;
        for (li = ps_latnode_exits(g->n[i].p); li; li = ps_latlink_iter_next(li)) {
            latlink_t *lk = ps_latlink_iter_link(li); latnode_t *src = NULL, *dst = ps_latlink_nodes(lk, &src); int16 sf; llink *y; int t;
            if (src != g->n[i].p) { vh_viol("exit_link_wrong_source", "an exit link of node %s@%d has a different source node", g->n[i].word, g->n[i].sf); return -1; }
            t = node_idx(g, dst);
            if (t < 0) { vh_viol("link_to_unlisted_node", "link from %s@%d leads to a node that is not in the node list (deleted?)", g->n[i].word, g->n[i].sf); return -1; }
            if (g->nl == lcap) { lcap = lcap ? lcap * 2 : 1024; g->l = (llink *)realloc(g->l, sizeof(llink) * (size_t)lcap); }
            y = &g->l[g->nl++]; y->p = lk; y->from = i; y->to = t; y->ef = latlink_times(lk, &sf);
            ps_latlink_prob(dag, lk, &y->ascr);
            if (sf != g->n[i].sf) { vh_viol("link_start_frame", "latlink_times start frame %d != source node start %d", sf, g->n[i].sf); return -1; }
            ++g->n[i].nout; ++g->n[t].nin;
            if (g->nl > 2000000) { vh_inconc("lattice larger than 2M links"); return -1; }
        }
    }
    for (i = 0; i < g->nn; ++i) { g->n[i].out = (int *)calloc((size_t)g->n[i].nout + 1, sizeof(int)); g->n[i].in = (int *)calloc((size_t)g->n[i].nin + 1, sizeof(int)); g->n[i].nout = g->n[i].nin = 0; }
    for (i = 0; i < g->nl; ++i) { g->n[g->l[i].from].out[g->n[g->l[i].from].nout++] = i; g->n[g->l[i].to].in[g->n[g->l[i].to].nin++] = i; }
    /* entries lists must be the mirror image */
    for (i = 0; i < g->nn; ++i) {
        latlink_iter_t *li; int cnt = 0;
        for (li = ps_latnode_entries(g->n[i].p); li; li = ps_latlink_iter_next(li)) {
            latlink_t *lk = ps_latlink_iter_link(li); latnode_t *src = NULL, *dst = ps_latlink_nodes(lk, &src); int k, found = 0;
            if (dst != g->n[i].p) { vh_viol("entry_link_wrong_target", "an entry link of node %s@%d points elsewhere", g->n[i].word, g->n[i].sf); return -1; }
            for (k = 0; k < g->n[i].nin; ++k) if (g->l[g->n[i].in[k]].p == lk) found = 1;
            if (!found) { vh_viol("entry_without_exit", "node %s@%d lists an entry link that no node lists as exit", g->n[i].word, g->n[i].sf); return -1; }
            ++cnt;
        }
        if (cnt != g->n[i].nin) { vh_viol("exit_without_entry", "node %s@%d: %d links point to it but its entries list has %d", g->n[i].word, g->n[i].sf, g->n[i].nin, cnt); return -1; }
    }
    return 0;
}

static void lgraph_topo(lgraph *g)
{
    int head = 0, tail = 0, i, k;
    g->topo = (int *)calloc((size_t)g->nn + 1, sizeof(int));
    for (i = 0; i < g->nn; ++i) { g->n[i].indeg_left = g->n[i].nin; if (g->n[i].nin == 0) g->topo[tail++] = i; }
    while (head < tail) {
        int u = g->topo[head]; g->n[u].order = head; ++head;
        for (k = 0; k < g->n[u].nout; ++k) { int v = g->l[g->n[u].out[k]].to; if (--g->n[v].indeg_left == 0) g->topo[tail++] = v; }
    }
    g->acyclic = (tail == g->nn);
}

static int is_synth_start(const lgraph *g, int i) { return i == g->start && g->n[i].word && !strcmp(g->n[i].word, "<s>"); }
static int is_synth_end(const lgraph *g, int i) { return i == g->end && g->n[i].word && !strcmp(g->n[i].word, "</s>"); }

static void mon_c11(ctx *c, int final, lgraph *g, const vd_result *res)
{
    int i, k, nsrc = 0, nsink = 0, last_exit_frame = -1; const char *fin = final ? "final" : "partial";
    const vfsa *T = &c->g->truth;
    /* single start / end */
    for (i = 0; i < g->nn; ++i) { if (g->n[i].nin == 0) { ++nsrc; if (i != g->start) vh_viol("extra_node_without_entries", "%s: node %s@%d has no entries but is not the start node (%d nodes)", fin, g->n[i].word, g->n[i].sf, g->nn); } if (g->n[i].nout == 0) { ++nsink; if (i != g->end) vh_viol("extra_node_without_exits", "%s: node %s@%d has no exits but is not the end node", fin, g->n[i].word, g->n[i].sf); } }
    if (g->n[g->start].nin != 0) vh_viol("start_has_entries", "%s: the start node has %d entries", fin, g->n[g->start].nin);
    if (g->n[g->end].nout != 0) vh_viol("end_has_exits", "%s: the end node has %d exits", fin, g->n[g->end].nout);
    if (!g->acyclic) { vh_viol("cycle", "%s: the lattice has a cycle (%d nodes, %d links)", fin, g->nn, g->nl); return; }
    /* reachability both ways */
    for (i = 0; i < g->nn; ++i) g->n[i].fw = g->n[i].bw = 0;
    g->n[g->start].fw = 1;
    for (i = 0; i < g->nn; ++i) { int u = g->topo[i]; if (g->n[u].fw) for (k = 0; k < g->n[u].nout; ++k) g->n[g->l[g->n[u].out[k]].to].fw = 1; }
    g->n[g->end].bw = 1;
    for (i = g->nn - 1; i >= 0; --i) { int u = g->topo[i]; if (g->n[u].bw) for (k = 0; k < g->n[u].nin; ++k) g->n[g->l[g->n[u].in[k]].from].bw = 1; }
    for (i = 0; i < g->nn; ++i) if (!g->n[i].fw || !g->n[i].bw) { vh_viol(g->n[i].fw ? "node_cannot_reach_end" : "node_unreachable_from_start", "%s: node %s@%d is not on any start-to-end path", fin, g->n[i].word, g->n[i].sf); break; }
    /* time consistency of every link */
    /* the lattice ends in the last frame in which a word instance that has predecessors ends */
    for (i = 0; i < g->nn; ++i) if (!is_synth_end(g, i) && !is_synth_start(g, i) && g->n[i].nin > 0 && g->n[i].lef > last_exit_frame) last_exit_frame = g->n[i].lef;
    if (last_exit_frame >= g->nframes) vh_viol("node_ends_past_utterance", "%s: a node's last end frame %d is outside the %d frames of the lattice", fin, last_exit_frame, g->nframes);
    for (i = 0; i < g->nl; ++i) {
        const llink *l = &g->l[i]; const lnode *a = &g->n[l->from], *b = &g->n[l->to];
        if (is_synth_start(g, l->from)) { if (b->sf != 0) vh_viol("synthetic_start_link", "%s: <s> links to %s starting at frame %d", fin, b->word, b->sf); continue; }
        if (is_synth_end(g, l->to)) { if (a->lef != last_exit_frame) vh_viol("synthetic_end_link", "%s: %s@%d (last end frame %d) links to </s> but the last frame with a word exit is %d (utterance of %d frames)", fin, a->word, a->sf, a->lef, last_exit_frame, g->nframes); continue; }
        if (b->sf != l->ef + 1) vh_viol("link_not_t_to_t_plus_1", "%s: link %s@%d -> %s@%d ends at frame %d but the target starts at %d", fin, a->word, a->sf, b->word, b->sf, l->ef, b->sf);
        if (a->sf > l->ef || a->sf < 0) vh_viol("link_before_its_word", "%s: link out of %s@%d ends at frame %d", fin, a->word, a->sf, l->ef);
        if (l->ef >= g->nframes) vh_viol("link_past_utterance", "%s: link ends at frame %d, lattice covers %d frames", fin, l->ef, g->nframes);
        if (l->ef < a->fef || l->ef > a->lef) vh_viol("link_outside_node_end_range", "%s: link out of %s@%d ends at %d outside the node's end range [%d,%d]", fin, a->word, a->sf, l->ef, a->fef, a->lef);
    }
    /* grammar: state sets propagated along the DAG (fillers stay put), then exact random walks */
    for (i = 0; i < g->nn; ++i) vset_clear(&g->n[i].S);
    {
        vset init; vset_clear(&init); vset_add(&init, T->start); vfsa_eps_closure(T, &init);
        for (i = 0; i < g->nn; ++i) {
            int u = g->topo[i]; lnode *x = &g->n[u]; vset in, out; char base[128];
            vset_clear(&in);
            if (u == g->start) in = init;
            for (k = 0; k < x->nin; ++k) { const vset *ps = &g->n[g->l[x->in[k]].from].S; int q; for (q = 0; q < VF_SETW; ++q) in.b[q] |= ps->b[q]; }
            if (is_synth_start(g, u) || is_synth_end(g, u) || vd_is_filler_word(x->word ? x->word : "")) out = in;
            else { vd_base_word(x->word ? x->word : "", base, sizeof(base)); vfsa_step(T, &in, vfsa_find_label(T, base), &out); }
            x->S = out;
            if (vset_empty(&out) && !vset_empty(&in)) { vh_viol(vh_path("lattice_word_off_grammar|%s", vd_gram_kind_name(c->g->kind)), "%s: no path into node %s@%d can be continued with that word in the grammar\n%.700s", fin, x->word, x->sf, c->g->text.s); break; }
        }
    }
    {
        int walks = g->nl > 0 ? 120 : 1, w;
        for (w = 0; w < walks; ++w) {
            int u = g->start, steps = 0; vset cur, nx; char path[600]; size_t o = 0;
            vset_clear(&cur); vset_add(&cur, T->start); vfsa_eps_closure(T, &cur); path[0] = 0;
            for (;;) {
                lnode *x = &g->n[u]; char base[128];
                if (!(is_synth_start(g, u) || is_synth_end(g, u) || vd_is_filler_word(x->word ? x->word : ""))) {
                    vd_base_word(x->word ? x->word : "", base, sizeof(base));
                    vfsa_step(T, &cur, vfsa_find_label(T, base), &nx); cur = nx;
                }
                if (o + 40 < sizeof(path)) o += (size_t)snprintf(path + o, sizeof(path) - o, "%s%s", o ? " " : "", x->word ? x->word : "?");
                if (vset_empty(&cur)) { vh_viol(vh_path("lattice_path_off_grammar|%s", vd_gram_kind_name(c->g->kind)), "%s: lattice path \"%s\" is not a path of the grammar from its start state\n%.700s", fin, path, c->g->text.s); w = walks; break; }
                if (x->nout == 0 || ++steps > g->nn) break;
                u = g->l[x->out[vh_below(c->r, (uint32_t)x->nout)]].to;
            }
            vh_count("lattice_paths_walked", 1);
        }
    }
    /* first-best segmentation is a path of the lattice: follow it with a frontier of candidate nodes
     * (several nodes can share word and start frame and differ in grammar state) */
    if (res->nseg > 0) {
        char *cur = (char *)calloc((size_t)g->nn + 1, 1), *nxt = (char *)calloc((size_t)g->nn + 1, 1);
        int ok = 1, nreal = 0, any, at_end = 0; char why[400] = ""; const vd_seg *ps = NULL;
        for (i = 0; i < res->nseg && ok; ++i) {
            const vd_seg *s = &res->seg[i]; int u;
            if (!strcmp(s->word, "(NULL)")) continue;
            memset(nxt, 0, (size_t)g->nn); any = 0;
            if (nreal == 0) {
                /* first word: the start node itself, or a successor of a synthetic <s> */
                if (!is_synth_start(g, g->start)) { if (g->n[g->start].sf == s->sf && !strcmp(g->n[g->start].word, s->word)) { nxt[g->start] = 1; any = 1; } }
                else for (k = 0; k < g->n[g->start].nout; ++k) { int v = g->l[g->n[g->start].out[k]].to; if (g->n[v].sf == s->sf && !strcmp(g->n[v].word, s->word)) { nxt[v] = 1; any = 1; } }
                if (!any) { ok = 0; snprintf(why, sizeof(why), "first word %.60s@%d is not a start of the lattice", s->word, s->sf); }
            } else {
                for (u = 0; u < g->nn; ++u) if (cur[u]) for (k = 0; k < g->n[u].nout; ++k) { const llink *l = &g->l[g->n[u].out[k]]; if (l->ef == ps->ef && g->n[l->to].sf == s->sf && !strcmp(g->n[l->to].word, s->word)) { nxt[l->to] = 1; any = 1; } }
                if (!any) { ok = 0; snprintf(why, sizeof(why), "no link %.60s[..%d] -> %.60s@%d", ps->word, ps->ef, s->word, s->sf); }
            }
            memcpy(cur, nxt, (size_t)g->nn); ps = s; ++nreal;
        }
        if (ok && nreal > 0) {
            /* the last word must be able to end the lattice at its end frame */
            int u, fine = 0;
            for (u = 0; u < g->nn && !fine; ++u) {
                if (!cur[u] || ps->ef < g->n[u].fef || ps->ef > g->n[u].lef) continue;
                if (u == g->end) fine = 1;
                else if (is_synth_end(g, g->end)) for (k = 0; k < g->n[u].nout; ++k) if (g->l[g->n[u].out[k]].to == g->end) fine = 1;
            }
            if (!fine) { ok = 0; at_end = 1; snprintf(why, sizeof(why), "last word %.60s[..%d] does not end the lattice", ps->word, ps->ef); }
        }
        if (!ok) {
            int nw = 0; for (i = 0; i < res->nseg; ++i) if (strcmp(res->seg[i].word, "(NULL)")) ++nw;
            /* a single word whose node nothing enters (it is no start of the lattice, or it is the lattice's own start node: the recorded
             * finding, the end of the lattice is only sought among nodes with entries) is told apart from one that is entered from a
             * synthetic <s> and still cannot end the lattice */
            vh_viol(vh_path("first_best_not_in_lattice|%s", nw == 1 ? (at_end && is_synth_start(g, g->start) ? "one_word_result_entered_from_synthetic_start" : "one_word_result") : "multi_word_result"), "%s: %s (result \"%s\", %d word segments, %d lattice nodes)", fin, why, res->has_hyp ? res->hyp : "", nw, g->nn);
        } else vh_count("first_best_found_in_lattice", 1);
        free(cur); free(nxt);
    }
    vh_count(final ? "final_lattices_checked" : "partial_lattices_checked", 1);
    vh_count(is_synth_start(g, g->start) ? "lattices_with_synthetic_start" : "lattices_with_real_start", 1);
    vh_count(is_synth_end(g, g->end) ? "lattices_with_synthetic_end" : "lattices_with_real_end", 1);
    vh_max("max_lattice_nodes", g->nn); vh_max("max_lattice_links", g->nl);
    (void)nsrc; (void)nsink;
}

static double logsum_units(double a, double b, double unit)
{
    /* log-domain sum in units of log-base */
    double hi = a > b ? a : b, lo = a > b ? b : a;
    if (lo < -1e17) return hi;
    return hi + log1p(exp((lo - hi) * unit)) / unit;
}

static void check_posteriors(lgraph *g, lattice_t *dag, int32 post, double unit, int zero, const char *when)
{
    int i, k;
    /* rounding bound of every alpha/beta: half a unit per log-add that fed it (C19), propagated */
    for (i = 0; i < g->nn; ++i) { int u = g->topo[i]; double e = 0; for (k = 0; k < g->n[u].nin; ++k) { double x = g->n[g->l[g->n[u].in[k]].from].ealpha; if (x > e) e = x; } g->n[u].ealpha = e + 0.5 * g->n[u].nin + 0.5; }
    for (i = g->nn - 1; i >= 0; --i) { int u = g->topo[i]; double e = 0; for (k = 0; k < g->n[u].nout; ++k) { double x = g->n[g->l[g->n[u].out[k]].to].ebeta; if (x > e) e = x; } g->n[u].ebeta = e + 0.5 * g->n[u].nout + 0.5; }
    {
        double etot = g->n[g->end].ealpha + g->n[g->start].ebeta + 2.0, maxpost = -1e300;
        double fwd = -1e18, bwd = -1e18; int nfw = 0;
        if (post > (int32)(etot)) vh_viol(vh_path("%s%s", when, "bestpath_posterior_above_one"), "posterior of the best path is %d log units (> 0 + rounding bound %.1f)", post, etot);
        for (i = 0; i < g->nl; ++i) {
            int32 a = 0; int32 p = ps_latlink_prob(dag, g->l[i].p, &a);
            if ((double)p > maxpost) maxpost = p;
            if ((double)p > etot) { vh_viol(vh_path("%s%s", when, "link_posterior_above_one"), "link %s@%d -> %s@%d has posterior %d log units = P %.4f (rounding bound %.1f units; %d links)", g->n[g->l[i].from].word, g->n[g->l[i].from].sf, g->n[g->l[i].to].word, g->n[g->l[i].to].sf, p, exp(p * unit), etot, g->nl); break; }
            if (p < zero - 1000000 ) { vh_viol(vh_path("%s%s", when, "link_posterior_underflow"), "link posterior %d below log-zero", p); break; }
        }
        /* forward total (links into end) and backward total (links out of start) must both be the normaliser */
        for (k = 0; k < g->n[g->end].nin; ++k) { int32 a; fwd = logsum_units(fwd, (double)ps_latlink_prob(dag, g->l[g->n[g->end].in[k]].p, &a), unit); ++nfw; }
        for (k = 0; k < g->n[g->start].nout; ++k) { int32 a; bwd = logsum_units(bwd, (double)ps_latlink_prob(dag, g->l[g->n[g->start].out[k]].p, &a), unit); }
        if (fabs(fwd) > etot + nfw) vh_viol(vh_path("%s%s", when, "forward_total_not_one"), "posteriors of the links entering the end node sum to %.1f log units, expected 0 +- %.1f", fwd, etot + nfw);
        if (fabs(bwd) > etot + g->n[g->start].nout) vh_viol(vh_path("%s%s", when, "backward_total_not_one"), "posteriors of the links leaving the start node sum to %.1f log units, expected 0 +- %.1f (forward total %.1f)", bwd, etot + g->n[g->start].nout, fwd);
        /* conservation at every inner node: mass in == mass out */
        for (i = 0; i < g->nn; ++i) {
            double in = -1e18, out = -1e18; int32 a;
            if (i == g->start || i == g->end) continue;
            for (k = 0; k < g->n[i].nin; ++k) in = logsum_units(in, (double)ps_latlink_prob(dag, g->l[g->n[i].in[k]].p, &a), unit);
            for (k = 0; k < g->n[i].nout; ++k) out = logsum_units(out, (double)ps_latlink_prob(dag, g->l[g->n[i].out[k]].p, &a), unit);
            if (in < (double)zero / 2 && out < (double)zero / 2) continue;   /* both log-zero */
            if (fabs(in - out) > g->n[i].ealpha + g->n[i].ebeta + g->n[i].nin + g->n[i].nout + 2) {
                vh_viol(vh_path("%s%s", when, "posterior_not_conserved"), "node %s@%d: posterior mass entering %.1f, leaving %.1f log units (bound %.1f)", g->n[i].word, g->n[i].sf, in, out, g->n[i].ealpha + g->n[i].ebeta + g->n[i].nin + g->n[i].nout + 2);
                break;
            }
            vh_count("node_conservation_checks", 1);
        }
        vh_count("posterior_lattices_checked", 1);
        vh_max("max_rounding_bound_units", (long)etot);
    }
}

static void mon_c12(ctx *c, lgraph *g)
{
    lattice_t *dag = g->dag; logmath_t *lm = lattice_get_logmath(dag);
    float32 ascale = (float32)(1.0 / config_float(decoder_config(c->d), "ascale"));
    latlink_t *best; int32 post; int i, k; double unit = log(logmath_get_base(lm));
    int zero = logmath_get_zero(lm);
    if (!g->acyclic || g->nl == 0) { vh_count("lattices_without_links", 1); return; }
    vh_ctx("lattice_bestpath");
    best = lattice_bestpath(dag, ascale);
    /* independent max-plus DP over the observed DAG */
    {
        double *bestin = (double *)malloc(sizeof(double) * (size_t)g->nl), top = -1e300; int have = 0;
        for (i = 0; i < g->nl; ++i) bestin[i] = -1e300;
        for (i = 0; i < g->nn; ++i) {
            int u = g->topo[i]; double into = -1e300;
            if (u == g->start) into = 0;
            for (k = 0; k < g->n[u].nin; ++k) if (bestin[g->n[u].in[k]] > into) into = bestin[g->n[u].in[k]];
            if (into <= -1e299) continue;
            for (k = 0; k < g->n[u].nout; ++k) { int li = g->n[u].out[k]; bestin[li] = into + (double)(g->l[li].ascr >> 10); }
        }
        for (k = 0; k < g->n[g->end].nin; ++k) if (bestin[g->n[g->end].in[k]] > top) { top = bestin[g->n[g->end].in[k]]; have = 1; }
        if (!best) { if (have) vh_viol("bestpath_null", "lattice_bestpath returned NULL although start-to-end paths exist (best %f, %d nodes, %d links, synthetic start=%d)", top, g->nn, g->nl, is_synth_start(g, g->start)); free(bestin); return; }
        if (!have) vh_viol("bestpath_without_path", "lattice_bestpath returned a link but the oracle finds no start-to-end path");
        else if ((double)best->path_scr != top) vh_viol("bestpath_not_best", "best path score %d, the highest-scoring start-to-end path of the observed lattice scores %.0f", best->path_scr, top);
        { latnode_t *src = NULL, *dst = ps_latlink_nodes(best, &src); if (dst != dag->end) vh_viol("bestpath_not_at_end", "the best-path link does not enter the end node"); }
        free(bestin);
        vh_count("bestpaths_checked", 1);
    }
    /* the text and the segments reported for the best path are those of the nodes the path visits: every node entered by a link of
     * the chain best -> pred -> pred ..., first the node the first link leaves; fillers and the sentence markers are not part of the
     * text (recognised by spelling, as everywhere in these monitors) */
    {
        latnode_t *chain[512]; int nc = 0, q, ok = 1; latlink_t *l; vh_sb want; const char *got; seg_iter_t *si; int ns = 0, prev_ef = -2;
        for (l = best; l && nc < 510; l = ps_latlink_pred(l)) { latnode_t *src = NULL; (void)ps_latlink_nodes(l, &src); chain[nc++] = src; }
        if (l) ok = 0;   /* longer than the buffer: not judged */
        if (ok) {
            latnode_t *src0 = NULL, *dst = ps_latlink_nodes(best, &src0); int last_real = 0;
            /* consecutive links must share a node */
            for (l = best, q = 0; l && ps_latlink_pred(l); l = ps_latlink_pred(l), ++q) { latnode_t *a = NULL; latnode_t *b = ps_latlink_nodes(ps_latlink_pred(l), &a); if (b != chain[q]) { vh_viol("bestpath_chain_broken", "best-path link %d leaves node %s@%d but its predecessor link enters %s@%d", q, ps_latnode_word(dag, chain[q]), chain[q]->sf, ps_latnode_word(dag, b), b->sf); ok = 0; break; } }
            if (ok && chain[nc - 1] != dag->start) { vh_viol("bestpath_not_from_start", "the first link of the best path leaves %s@%d, not the start node", ps_latnode_word(dag, chain[nc - 1]), chain[nc - 1]->sf); ok = 0; }
            if (ok) {
                vh_sb_init(&want);
                for (q = nc - 1; q >= -1; --q) { latnode_t *nd = q >= 0 ? chain[q] : dst; const char *w = ps_latnode_baseword(dag, nd); if (!w || vd_is_filler_word(w)) continue; vh_sb_printf(&want, "%s%s", want.n ? " " : "", w); if (q == -1) last_real = 1; }
                vh_ctx("lattice_hyp"); got = lattice_hyp(dag, best);
                if (strcmp(got ? got : "(null)", want.s ? want.s : "")) vh_viol(last_real ? "bestpath_text_differs_from_path|end_node_is_a_word" : "bestpath_text_differs_from_path", "lattice_hyp says \"%s\", the nodes on the best path read \"%s\"", got ? got : "(null)", want.s ? want.s : "");
                vh_count("bestpath_texts_compared_with_path", 1); if (last_real) vh_count("bestpaths_ending_in_a_real_word", 1);
                vh_sb_free(&want);
                /* segments: one per node of the path, in order, with the node's word and start frame; end frames do not run backwards */
                vh_ctx("lattice_seg_iter");
                for (si = lattice_seg_iter(dag, best); si; si = seg_iter_next(si)) {
                    int sf, ef; const char *w = seg_iter_word(si); latnode_t *nd = ns < nc ? chain[nc - 1 - ns] : (ns == nc ? dst : NULL);
                    seg_iter_frames(si, &sf, &ef);
                    if (!nd) { vh_viol("bestpath_segments_too_many", "the best path visits %d nodes, its segment iterator yields more", nc + 1); seg_iter_free(si); break; }
                    if (strcmp(w ? w : "(null)", ps_latnode_word(dag, nd)) || sf != nd->sf) { vh_viol("bestpath_segment_differs_from_node", "segment %d is %s@%d, node %d of the best path is %s@%d", ns, w ? w : "(null)", sf, ns, ps_latnode_word(dag, nd), nd->sf); seg_iter_free(si); break; }
                    if (ef < sf - 1 || sf <= prev_ef - 0 - 1) { vh_viol("bestpath_segment_times", "segment %d (%s) spans %d..%d after a segment ending at %d", ns, w, sf, ef, prev_ef); seg_iter_free(si); break; }
                    prev_ef = ef; ++ns;
                }
                if (!si && ns != nc + 1 && ns > 0) vh_viol("bestpath_segments_too_few", "the best path visits %d nodes, its segment iterator yields %d", nc + 1, ns);
                vh_count("bestpath_segmentations_compared_with_path", 1);
            }
        }
    }
    /* a caller may walk the edges itself and stop half-way (the traversal state lives in the lattice): what comes next must not care */
    if (vh_chance(c->r, 0.25)) {
        int steps = vh_range(c->r, 0, 8), q; latlink_t *l;
        vh_ctx("lattice_traverse_edges(abandoned)");
        if (vh_chance(c->r, 0.5)) { for (l = lattice_traverse_edges(dag, NULL, NULL), q = 0; l && q < steps; l = lattice_traverse_next(dag, NULL), ++q) ; }
        else { for (l = lattice_reverse_edges(dag, NULL, NULL), q = 0; l && q < steps; l = lattice_reverse_next(dag, NULL), ++q) ; }
        vh_count("abandoned_edge_traversals", 1);
    }
    vh_ctx("lattice_posterior");
    post = lattice_posterior(dag, ascale);
    check_posteriors(g, dag, post, unit, zero, "");
    /* calling posterior again must give the same answer (betas are reset) */
    { int32 post2 = lattice_posterior(dag, ascale); if (post2 != post) vh_viol("posterior_not_repeatable", "lattice_posterior returned %d, then %d on the same lattice", post, post2); check_posteriors(g, dag, post2, unit, zero, "second_call:"); }
    /* N-best */
    {
        hyp_iter_t *nb; int n = 0; int32 prev = 0; int limit = vh_tier ? 200 : 60, interleave = vh_chance(c->r, 0.3), positive_links = 0;
        for (i = 0; i < g->nl; ++i) if (g->l[i].ascr > 0) positive_links = 1;
        if (positive_links) { vh_count("nbest_lists_over_lattices_with_positive_link_scores", 1); }
        vh_ctx("decoder_nbest");
        for (nb = decoder_nbest(c->d); nb; nb = hyp_iter_next(nb)) {
            int32 sc = 0; const char *h = hyp_iter_hyp(nb, &sc); seg_iter_t *si; char joined[4096]; size_t o = 0; int ok = 1, first = 1, any, u, pef = -1; char why[260] = "";
            char *cur = (char *)calloc((size_t)g->nn + 1, 1), *nxt = (char *)calloc((size_t)g->nn + 1, 1);
            if (n > 0 && sc > prev) { vh_viol("nbest_not_ordered", "N-best entry %d scores %d after an entry scoring %d", n, sc, prev); hyp_iter_free(nb); free(cur); free(nxt); break; }
            prev = sc; joined[0] = 0;
            for (si = hyp_iter_seg(nb); si; si = seg_iter_next(si)) {
                const char *w = seg_iter_word(si); int sf, ef; char base[128];
                seg_iter_frames(si, &sf, &ef);
                if (!w) { ok = 0; snprintf(why, sizeof(why), "segment without word"); continue; }
                if (!ok) continue;
                memset(nxt, 0, (size_t)g->nn); any = 0;
                if (first) {
                    if (g->n[g->start].sf == sf && !strcmp(g->n[g->start].word, w)) { nxt[g->start] = 1; any = 1; }
                    for (k = 0; k < g->n[g->start].nout; ++k) { int v = g->l[g->n[g->start].out[k]].to; if (is_synth_start(g, g->start) && g->n[v].sf == sf && !strcmp(g->n[v].word, w)) { nxt[v] = 1; any = 1; } }
                } else for (u = 0; u < g->nn; ++u) if (cur[u]) for (k = 0; k < g->n[u].nout; ++k) { const llink *l = &g->l[g->n[u].out[k]]; if (g->n[l->to].sf == sf && !strcmp(g->n[l->to].word, w) && (l->ef == pef || is_synth_start(g, u) || is_synth_end(g, l->to))) { nxt[l->to] = 1; any = 1; } }
                if (!any) { ok = 0; snprintf(why, sizeof(why), "%.60s@%d does not continue the path in the lattice (previous word ended at %d)", w, sf, pef); }
                memcpy(cur, nxt, (size_t)g->nn); first = 0; pef = ef;
                if (!vd_is_filler_word(w)) { vd_base_word(w, base, sizeof(base)); if (o + strlen(base) + 2 < sizeof(joined)) o += (size_t)snprintf(joined + o, sizeof(joined) - o, "%s%s", o ? " " : "", base); }
            }
            if (ok && !first) {
                int fine = 0;
                for (u = 0; u < g->nn && !fine; ++u) { if (!cur[u]) continue; if (u == g->end) fine = 1; else if (is_synth_end(g, g->end)) for (k = 0; k < g->n[u].nout; ++k) if (g->l[g->n[u].out[k]].to == g->end) fine = 1; }
                if (!fine) { ok = 0; snprintf(why, sizeof(why), "the path does not stop at the end node"); }
            }
            free(cur); free(nxt);
            if (!ok) { vh_viol("nbest_not_a_lattice_path", "N-best entry %d (\"%s\"): %s", n, h ? h : "", why); hyp_iter_free(nb); break; }
            if (strcmp(h ? h : "", joined)) { vh_viol("nbest_string_mismatch", "N-best entry %d string \"%s\" but its path's words are \"%s\"", n, h ? h : "", joined); hyp_iter_free(nb); break; }
            if (++n >= limit) { hyp_iter_free(nb); break; }
            /* lattice queries between two steps of the iterator (they share per-node scratch fields with the A* search) must not disturb it */
            if (interleave && vh_chance(c->r, 0.3)) { vh_ctx("lattice_bestpath_between_nbest_steps"); if (vh_chance(c->r, 0.5)) (void)lattice_bestpath(dag, ascale); else (void)lattice_posterior(dag, ascale); vh_count("lattice_queries_between_nbest_steps", 1); vh_ctx("hyp_iter_next"); }
        }
        vh_count("nbest_entries_checked", n);
        if (n > 1) vh_count("nbest_lists_with_several_entries", 1);
        vh_max("max_nbest_entries", n);
    }
}

/* ============================= C14 ============================= */
static int approx_time(double got, double want) { return fabs(got - want) <= 0.0005 + 1e-9 * fabs(want) + 1e-12; }

/* a JSON string must be valid UTF-8: bytes of the word that are not may arrive as U+FFFD or as U+00XX */
static int same_modulo_invalid_utf8(const char *got, const char *want)
{
    const unsigned char *g = (const unsigned char *)got, *w = (const unsigned char *)want;
    while (*w) {
        int n = (*w < 0x80) ? 1 : (*w >= 0xc2 && *w <= 0xdf) ? 2 : (*w >= 0xe0 && *w <= 0xef) ? 3 : (*w >= 0xf0 && *w <= 0xf4) ? 4 : 0, i;
        for (i = 1; i < n; ++i) if ((w[i] & 0xc0) != 0x80) n = 0;
        if (n && ((w[0] == 0xe0 && w[1] < 0xa0) || (w[0] == 0xed && w[1] > 0x9f) || (w[0] == 0xf0 && w[1] < 0x90) || (w[0] == 0xf4 && w[1] > 0x8f))) n = 0;
        if (n) { if (memcmp(g, w, (size_t)n)) return 0; g += n; w += n; }
        else {
            if (g[0] == 0xef && g[1] == 0xbf && g[2] == 0xbd) g += 3;                                   /* U+FFFD */
            else if (g[0] == (0xc0 | (*w >> 6)) && g[1] == (0x80 | (*w & 0x3f))) g += 2;              /* U+00XX */
            else return 0;
            ++w;
        }
    }
    return *g == 0;
}

static void json_entry_check(const vj_val *e, const char *want_t, double want_b, double want_d, double want_p, int check_p, const char *where)
{
    const vj_val *t = vj_get(e, "t"), *b = vj_get(e, "b"), *dd = vj_get(e, "d"), *p = vj_get(e, "p");
    if (!t || t->type != VJ_STR || !b || b->type != VJ_NUM || !dd || dd->type != VJ_NUM || !p || p->type != VJ_NUM) { vh_viol("json_fields_missing", "%s: entry lacks t/b/d/p fields of the right types", where); return; }
    if (strcmp(t->s, want_t) && !same_modulo_invalid_utf8(t->s, want_t)) vh_viol("json_text_mismatch", "%s: \"t\" is \"%s\" but the iterator says \"%s\"", where, t->s, want_t);
    if (!approx_time(b->num, want_b)) vh_viol("json_start_mismatch", "%s (%s): \"b\" %.6f, iterator gives %.6f", where, want_t, b->num, want_b);
    if (!approx_time(dd->num, want_d)) vh_viol("json_duration_mismatch", "%s (%s): \"d\" %.6f, iterator gives %.6f", where, want_t, dd->num, want_d);
    if (check_p && fabs(p->num - want_p) > 0.0005 + 1e-9) vh_viol("json_prob_mismatch", "%s (%s): \"p\" %.6f, iterator gives %.6f", where, want_t, p->num, want_p);
}

extern size_t __sanitizer_get_allocated_size(const volatile void *p) __attribute__((weak));

static void mon_c14(ctx *c, int final, const vd_result *res)
{
    int level = (int)vh_below(c->r, 3);
    double start = VH_PICK(c->r, ((double[]){ 0.0, 0.0, 1.5, 12.345, 59.99, 7265.337, 20000.0, 86400.25, 1e6, -3.25, -0.25, -0.004, 0.9996, -1.0, 4294967.5 }));
    /* a third of the offsets are drawn: small ones of either sign (so that start, start + word begin, ... fall on both sides of
       0 and of +-1) and large ones of either sign */
    if (vh_chance(c->r, 0.35)) start = vh_chance(c->r, 0.7) ? (vh_unit(c->r) * 6.0 - 3.0) : (vh_unit(c->r) - 0.5) * 2e5;
    vh_count(start < 0 ? "json_negative_start_offsets" : "json_nonnegative_start_offsets", 1);
    const char *js; vj_val *root; const char *err = NULL; size_t len; logmath_t *lm = decoder_logmath(c->d);
    const char *fin = final ? "final" : "partial"; const vj_val *w;
    vh_ctx("decoder_result_json");
    js = decoder_result_json(c->d, start, level);
    if (!js) {
        /* levels 1/2 need an alignment: NULL is the documented "no alignment" answer; level 0 always answers */
        if (level == 0) vh_viol("json_null_level0", "%s: decoder_result_json(level 0) returned NULL", fin);
        else vh_count("json_null_no_alignment", 1);
        return;
    }
    len = strlen(js);
    if (len == 0 || js[len - 1] != '\n') vh_viol("json_no_newline", "%s level %d: result does not end in a newline: ...%.60s", fin, level, len > 60 ? js + len - 60 : js);
    if (__sanitizer_get_allocated_size) { size_t al = __sanitizer_get_allocated_size(js); if (al != len + 1) vh_viol("json_length_vs_buffer", "%s level %d: text is %zu bytes (+NUL) but the buffer allocated for it is %zu bytes", fin, level, len, al); vh_count("json_buffer_sizes_checked", 1); }
    root = vj_parse(js, len, &err);
    if (!root) {
        int hostile = 0; int i; for (i = 0; i < res->nseg; ++i) if (strpbrk(res->seg[i].word, "\"\\") ) hostile = 1;
        vh_viol(hostile ? "json_invalid|word_needs_escaping" : "json_invalid", "%s level %d: not valid JSON (%s): %.300s", fin, level, err ? err : "?", js);
        return;
    }
    if (root->type != VJ_OBJ) { vh_viol("json_not_object", "top level is not an object"); vj_free(root); return; }
    /* top-level fields */
    {
        double frate = (double)c->frate;
        json_entry_check(root, res->has_hyp ? res->hyp : "", start, (double)decoder_n_frames(c->d) / frate, 1.0, 0, "top level");
    }
    w = vj_get(root, "w");
    if (!w || w->type != VJ_ARR) { vh_viol("json_no_word_list", "no \"w\" array at top level"); vj_free(root); return; }
    if (level == 0) {
        int i;
        if (w->n != res->nseg) vh_viol("json_word_count", "%s: %d entries in \"w\", the segmentation has %d", fin, w->n, res->nseg);
        else for (i = 0; i < res->nseg; ++i) {
            const vd_seg *s = &res->seg[i];
            json_entry_check(w->a[i], s->word, start + (double)s->sf / c->frate, (double)(s->ef + 1 - s->sf) / c->frate, logmath_exp(lm, s->prob), 1, "word entry");
        }
        vh_count("json_level0_checked", 1);
    } else {
        alignment_t *al = decoder_alignment(c->d); alignment_iter_t *wi; int i = 0;
        if (!al) { vh_viol("json_without_alignment", "JSON level %d produced but decoder_alignment returns NULL", level); vj_free(root); return; }
        for (wi = alignment_words(al); wi; wi = alignment_iter_next(wi), ++i) {
            int st, du, sc = alignment_iter_seg(wi, &st, &du); const vj_val *e, *pw; alignment_iter_t *pi; int j = 0;
            if (i >= w->n) { vh_viol("json_word_count", "fewer word entries (%d) than alignment words", w->n); alignment_iter_free(wi); break; }
            e = w->a[i];
            json_entry_check(e, alignment_iter_name(wi), start + (double)st / c->frate, (double)du / c->frate, logmath_exp(lm, sc), 1, "alignment word");
            pw = vj_get(e, "w");
            if (!pw || pw->type != VJ_ARR) { vh_viol("json_no_phone_list", "word entry without nested \"w\""); continue; }
            for (pi = alignment_iter_children(wi); pi; pi = alignment_iter_next(pi), ++j) {
                int pst, pdu, psc = alignment_iter_seg(pi, &pst, &pdu); const vj_val *pe;
                if (j >= pw->n) { vh_viol("json_phone_count", "fewer phone entries than alignment phones"); alignment_iter_free(pi); break; }
                pe = pw->a[j];
                json_entry_check(pe, alignment_iter_name(pi), start + (double)pst / c->frate, (double)pdu / c->frate, logmath_exp(lm, psc), 1, "alignment phone");
                if (level == 2) {
                    const vj_val *sw = vj_get(pe, "w"); alignment_iter_t *si; int q = 0;
                    if (!sw || sw->type != VJ_ARR) { vh_viol("json_no_state_list", "phone entry without nested \"w\" at level 2"); continue; }
                    for (si = alignment_iter_children(pi); si; si = alignment_iter_next(si), ++q) {
                        int sst, sdu, ssc = alignment_iter_seg(si, &sst, &sdu);
                        if (q >= sw->n) { vh_viol("json_state_count", "fewer state entries than alignment states"); alignment_iter_free(si); break; }
                        json_entry_check(sw->a[q], alignment_iter_name(si), start + (double)sst / c->frate, (double)sdu / c->frate, logmath_exp(lm, ssc), 1, "alignment state");
                    }
                    if (q != sw->n) vh_viol("json_state_count", "%d state entries in JSON, %d alignment states", sw->n, q);
                } else if (vj_get(pe, "w")) vh_viol("json_unexpected_states", "level 1 JSON contains state lists");
            }
            if (j != pw->n) vh_viol("json_phone_count", "%d phone entries in JSON, %d alignment phones", pw->n, j);
        }
        if (i != w->n) vh_viol("json_word_count", "%d word entries in JSON, %d alignment words", w->n, i);
        vh_count(level == 1 ? "json_level1_checked" : "json_level2_checked", 1);
    }
    vj_free(root);
}

/* ============================= driver ============================= */
/* C14: words with hostile spellings, added through decoder_add_word and used in an alignment text */
static const char *hostile_words[] = { "he\"llo", "back\\slash", "ctl\x01char", "caf\xc3\xa9", "bad\xff\xfeutf", "quote\"", "\"", "\\", "a\\\"b", "tab\x0bv",
    /* every shape of ill-formed UTF-8: overlong 2-, 3- and 4-byte forms, lead bytes above F4, surrogates, beyond U+10FFFF, stray and missing continuation bytes */
    "for\xc0\xafward", "ten\xc1\xbf", "m\xf5\x80\x80\x80s", "x\xf7\xbf\xbf\xbf", "o\xe0\x80\x80l", "o\xf0\x80\x80\x80l", "s\xed\xa0\x80g", "b\xf4\x90\x80\x80y", "st\x80ray", "cut\xe2\x82", "cut\xf0\x9f\x98",
    "ok\xe2\x82\xac", "ok\xf0\x9f\x98\x80", "del\x7f", "nul\xc2\x80",
    "wwwwwwwwwwwwwwwwwwwwwwwwwwwwwwwwwwwwwwwwwwwwwwwwwwwwwwwwwwwwwwwwwwwwwwwwwwwwwwwwwwwwwwwwwwwwwwwwwwwwwwwwwwwwwwwwwwwwwwwwwwwwwwwwwwwwwwwwwwwwwwwwwwwwwwwwwwwwwwwwwwwwwwwwwwwwwwwwwwwwwwwwwwwwwwwwwwwwwwwwwwwwwwwwwwwwwwwwwwwwwwwwwwwwwwwwwwwwwwwwwwwwwwwwwwwwwwwwwwwwwwwwwwwwwwwwwwwwwwwwwwwwwwwwwwwwwwwwwwwwwwwwwwwwww" };
#define NHOSTILE ((int)(sizeof(hostile_words) / sizeof(hostile_words[0])))
static void make_hostile_gram(ctx *c, vh_rng *r, vd_gram *g)
{
    const char *tr_en[] = { "go", "forward", "ten", "meters" }, *tr_fr[] = { "avance", "de", "dix", "m\xc3\xa8tres" };
    const char **tr = c->cfg.lang == VD_FR ? tr_fr : tr_en; const char *pron = c->cfg.lang == VD_FR ? "a v an s" : "HH AH L OW";
    int i, n = 0, k; const char *seq[12];
    /* pronunciation of the first transcript word, from the harness' own copy of the lexicon */
    { const vd_lex *lx = vd_lexicon(c->cfg.lang); int li = vd_lex_find(lx, tr[0]); if (li >= 0) pron = lx->pron[li]; }
    for (i = 0; i < NHOSTILE; ++i) if (decoder_lookup_word(c->d, hostile_words[i]) == NULL) { vh_ctx("decoder_add_word"); decoder_add_word(c->d, hostile_words[i], pron, i == NHOSTILE - 1); }
    for (i = 0; i < 4; ++i) { if (vh_chance(r, 0.5) && n < 10) seq[n++] = hostile_words[vh_below(r, NHOSTILE)]; if (vh_chance(r, 0.8)) seq[n++] = tr[i]; }
    if (n == 0) seq[n++] = hostile_words[0];
    memset(g, 0, sizeof(*g)); g->kind = VG_ALIGN_TEXT; g->lang = c->cfg.lang; vh_sb_init(&g->text);
    vfsa_init(&g->truth, n + 1, 0, n);
    for (k = 0; k < n; ++k) { vh_sb_printf(&g->text, "%s%s", k ? " " : "", seq[k]); vfsa_add(&g->truth, k, k + 1, vfsa_label(&g->truth, seq[k]), 0); }
    snprintf(g->desc, sizeof(g->desc), "align text with hostile spellings, %d words", n);
}

static long g_frames_so_far;
static void *g_last_dag; static long g_last_dag_frames;   /* the lattice of the latest partial observation of this utterance (address only, never dereferenced) */
static void observe(ctx *c, int final, long frames_searched)
{
    vd_result res;
    vd_result_get(c->d, &res);
    if (MON & M_C01) mon_c01(c, final, &res);
    if (MON & M_C03) mon_c03(c, final, &res, frames_searched);
    if (MON & M_C14) mon_c14(c, final, &res);
    if (MON & (M_C11 | M_C12)) {
        lattice_t *dag, *dag2; lgraph g;
        /* the library builds the lattice in time quadratic in the number of history entries: with fully
         * open beams that is minutes for a second of audio, so very large histories are not turned into lattices */
        if (fsg_history_n_entries(((fsg_search_t *)c->d->search)->history) > 30000) { vh_count("lattice_skipped_history_too_large", 1); vd_result_free(&res); return; }
        vh_ctx("decoder_lattice");
        dag = decoder_lattice(c->d);
        if (!dag) vh_count(final ? "final_no_lattice" : "partial_no_lattice", 1);
        else {
            dag2 = decoder_lattice(c->d);
            if ((MON & M_C11) && dag2 != dag) vh_viol("lattice_not_cached", "a second decoder_lattice() call without new audio returned a different object");
            /* ending the utterance adds no audio: if it searched no further frame either, the lattice asked for before is still the lattice */
            if ((MON & M_C11) && final && g_last_dag && g_last_dag_frames == (long)c->d->acmod->output_frame && dag != g_last_dag) vh_viol("lattice_not_cached|across_end_utt", "the lattice requested before decoder_end_utt() (%ld frames searched) and the one requested after it (no further frame searched) are different objects", g_last_dag_frames);
            if ((MON & M_C11) && final && g_last_dag && g_last_dag_frames == (long)c->d->acmod->output_frame) vh_count("lattices_compared_across_end_utt", 1);
            if (!final) { g_last_dag = (void *)dag; g_last_dag_frames = (long)c->d->acmod->output_frame; }
            if (lgraph_read(&g, dag) == 0) {
                lgraph_topo(&g);
                if (MON & M_C11) mon_c11(c, final, &g, &res);
                if ((MON & M_C12) && (final || vh_chance(c->r, 0.3))) mon_c12(c, &g);
            }
            lgraph_free(&g);
        }
    }
    vd_result_free(&res);
}
static void partial_cb(decoder_t *d, void *user, long samples_fed, long frames_returned)
{
    ctx *c = (ctx *)user; (void)d; (void)samples_fed;
    g_frames_so_far = frames_returned;
    ++c->partials;
    observe(c, 0, frames_returned);
}

static void run(long i, vh_rng *r)
{
    ctx c; vd_gram g; vd_audio a; vd_pattern p; vd_runinfo info; char sdesc[300], pdesc[200];
    int lang = vh_chance(r, 0.12) ? VD_FR : VD_EN, beam_mode = -1, gkind = -1, own_d = 0, insertion_bonus = 0;
    memset(&c, 0, sizeof(c));
    vd_cfg_default(&c.cfg, lang);
    if (lang == VD_EN && vh_chance(r, 0.08)) c.cfg.samprate = 8000;
    if (vh_chance(r, 0.1)) c.cfg.cmn = VH_PICK(r, ((const char *[]){ "batch", "none" }));
    if ((MON == M_C14 || MON == M_C03) && vh_chance(r, 0.15)) c.cfg.frate = VH_PICK(r, ((int[]){ 50, 200, 90, 60, 125, 150, 70 }));
    if ((MON == M_C01 || MON == M_C03) && vh_chance(r, 0.1)) { c.cfg.skip_tmat = vh_chance(r, 0.5) ? 2 : 1; vh_count("scenarios_with_skip_transitions", 1); }   /* Bakis topology: states can be skipped */
    c.frate = c.cfg.frate; c.r = r;
    if ((MON == M_C14 || MON == M_C03) && vh_chance(r, 0.1)) {
        /* the frame rate is changed on a live decoder: decoder_reinit_feat with the value set in place, or with a new configuration
         * object; every time reported afterwards is in frames of the new rate */
        int nf = VH_PICK(r, ((int[]){ 50, 80, 125, 200, 90 })); vd_cfg c2 = c.cfg; int rv;
        if (nf == c.cfg.frate) nf = 100 + (c.cfg.frate == 100 ? 25 : 0);
        c.d = vd_decoder_fresh(&c.cfg); own_d = 1;
        if (!c.d) { vh_inconc("decoder_init failed"); return; }
        c2.frate = nf;
        vh_ctx("decoder_reinit_feat");
        if (vh_chance(r, 0.5)) { config_set_int(decoder_config(c.d), "frate", nf); rv = decoder_reinit_feat(c.d, NULL); }
        else rv = decoder_reinit_feat(c.d, vd_make_config(&c2));
        if (rv != 0) { vh_inconc("decoder_reinit_feat refused frate %d", nf); decoder_free(c.d); return; }
        c.cfg = c2; c.frate = nf; vh_count("frame_rate_changed_with_reinit_feat", 1);
    } else
    c.d = vd_decoder(&c.cfg);
    if (!c.d) { vh_inconc("decoder_init failed"); return; }
    fe_get_input_size(decoder_fe(c.d), &c.fe_shift, &c.fe_size);
    decoder_set_cmn(c.d, "40,3,-1");   /* every case starts from the same channel-normalisation state */
    vd_search_random(r, &c.sp, beam_mode);
    if (MON == M_C12 && vh_chance(r, 0.12)) {
        /* insertion "penalties" above 1 are bonuses: link and path scores become positive, which nothing in the statement excludes */
        if (vh_chance(r, 0.7)) c.sp.pip = VH_PICK(r, ((double[]){ 10.0, 100.0, 3.0 })); else c.sp.wip = VH_PICK(r, ((double[]){ 1e3, 1e5 }));
        insertion_bonus = 1; vh_count("scenarios_with_insertion_bonus", 1);
    }
    vd_search_apply(c.d, &c.sp);
    if (MON == M_C14 && vh_chance(r, 0.3)) { make_hostile_gram(&c, r, &g); vh_count("hostile_spelling_scenarios", 1); }
    else vd_gram_random(r, lang, gkind, MON == M_C01 ? 0.35 : 0.6, &g);
    c.g = &g;
    vd_audio_make(r, lang, (MON & (M_C01 | M_C03)) ? -1 : 0, (MON & (M_C11 | M_C12)) ? ((c.sp.beam_mode == 2 || insertion_bonus) ? 8000 : 60000) : 0, &a);
    if (c.cfg.samprate == 8000) { long j; for (j = 0; j < a.n / 2; ++j) a.s[j] = (int16_t)(((long)a.s[2 * j] + a.s[2 * j + 1]) / 2); a.n /= 2; a.samprate = 8000; }
    c.a = &a;
    vd_pattern_random(r, &p, 1);
    if ((MON & (M_C11 | M_C12)) && p.style == 3) p.style = 2;   /* lattices per tiny chunk are too slow */
    if ((MON & (M_C11 | M_C12 | M_C14)) && p.partial_prob > 0.25) p.partial_prob = 0.25;
    vd_search_desc(&c.sp, sdesc, sizeof(sdesc)); vd_pattern_desc(&p, pdesc, sizeof(pdesc));
    vh_desc("%s %dHz cmn=%s | %s | %s | audio: %s | %s\n%s", lang == VD_FR ? "fr-fr" : "en-us", c.cfg.samprate, c.cfg.cmn, sdesc, g.desc, a.desc, pdesc, g.text.s);
    if (vd_gram_load(c.d, &g) != 0) {
        vh_count("grammar_load_failed", 1);
        vh_inconc("the decoder refused the generated grammar (%s)", g.desc);
        goto out;
    }
    g_frames_so_far = 0; g_last_dag = NULL; g_last_dag_frames = -1;
    vd_run(c.d, &a, r, &p, partial_cb, &c, &info);
    if (info.failed) { vh_viol("utterance_call_failed", "start_utt=%d end_utt=%d after %ld processing calls on a valid scenario", info.start_ret, info.end_ret, info.ncalls); goto out; }
    {
        long searched = info.sum_ret + (info.nframes_after_end - info.nframes_before_end);
        if (MON & M_C03) {
            long want = expected_frames(&c, a.n);
            if (searched != want) vh_viol(vh_path("frame_count_mismatch|%s", p.full_utt ? "full_utt" : p.no_search_chunks ? "no_search" : "streaming"), "processing calls returned %ld frames, end_utt searched %d more: %ld in total, the front end produces %ld frames for %ld samples", info.sum_ret, info.nframes_after_end - info.nframes_before_end, searched, want, a.n);
            if (p.full_utt && info.sum_ret != want) vh_viol("full_utt_return_value", "full_utt call returned %ld frames, the front end produces %ld", info.sum_ret, want);
            vh_count("frame_counts_checked", 1);
            if (a.n < c.fe_size) vh_count("utterances_shorter_than_one_frame", 1);
            if (want >= 1 && want <= 8) vh_count("utterances_of_1_to_8_frames", 1);
        }
        observe(&c, 1, searched);
    }
    {
        const char *h = decoder_hyp(c.d, NULL);
        if (h || c.partials) vh_nontrivial("%016llx", (unsigned long long)vh_hash(h ? h : "", h ? strlen(h) : 0, vh_hash(g.text.s, g.text.n, vh_hash(a.desc, strlen(a.desc), VH_H0))));
        if (i % 60 == 5) vh_sample("[%s] %s; audio %s; %s; %s -> \"%s\" (%d partial observations)", vh_arg("monitor", "C01"), g.desc, a.desc, pdesc, sdesc, h ? h : "(no hypothesis)", c.partials);
        vh_count(vh_path("grammar_%s", vd_gram_kind_name(g.kind)), 1);
        vh_count(p.full_utt ? "pattern_full_utt" : p.no_search_chunks ? "pattern_buffered" : "pattern_streaming", 1);
        vh_count(c.sp.beam_mode == 0 ? "beams_default" : c.sp.beam_mode == 1 ? "beams_narrow" : "beams_open", 1);
        vh_count("partial_observations", c.partials);
    }
out:
    vd_audio_free(&a);
    vd_gram_free(&g);
    if (own_d) { vh_ctx("decoder_free"); decoder_free(c.d); }
}

static void teardown(void) { vd_drop_decoders(); }
static const vh_harness H = { "h_decode", ncases, setup, run, teardown, 300 };
int main(int argc, char **argv) { return vh_main(argc, argv, &H); }
