/* vfsa.c -- reference weighted finite-state acceptor (see vfsa.h) */
#include "vfsa.h"
#include "vh.h"
#include <stdlib.h>
#include <string.h>
#include <stdio.h>

void vfsa_init(vfsa *f, int n_state, int start, int final)
{
    memset(f, 0, sizeof(*f));
    f->n_state = n_state; f->start = start; f->final = final;
}
void vfsa_free(vfsa *f)
{
    int i;
    for (i = 0; i < f->nlabels; ++i) free(f->labels[i]);
    free(f->labels); free(f->arcs);
    memset(f, 0, sizeof(*f));
}
int vfsa_find_label(const vfsa *f, const char *name)
{
    int i;
    for (i = 0; i < f->nlabels; ++i) if (strcmp(f->labels[i], name) == 0) return i;
    return -1;
}
int vfsa_label(vfsa *f, const char *name)
{
    int i = vfsa_find_label(f, name);
    if (i >= 0) return i;
    if (f->nlabels == f->caplabels) { f->caplabels = f->caplabels ? f->caplabels * 2 : 16; f->labels = (char **)realloc(f->labels, sizeof(char *) * (size_t)f->caplabels); }
    f->labels[f->nlabels] = strdup(name);
    return f->nlabels++;
}
void vfsa_add(vfsa *f, int from, int to, int label, int64_t w)
{
    if (f->narcs == f->cap) { f->cap = f->cap ? f->cap * 2 : 64; f->arcs = (varc *)realloc(f->arcs, sizeof(varc) * (size_t)f->cap); }
    f->arcs[f->narcs].from = from; f->arcs[f->narcs].to = to; f->arcs[f->narcs].label = label; f->arcs[f->narcs].w = w;
    ++f->narcs;
}

int vfsa_from_model(fsg_model_t *fsg, vfsa *out, int flags)
{
    int i, n = 0;
    vfsa_init(out, fsg_model_n_state(fsg), fsg_model_start_state(fsg), fsg_model_final_state(fsg));
    for (i = 0; i < fsg_model_n_state(fsg); ++i) {
        fsg_arciter_t *it;
        for (it = fsg_model_arcs(fsg, i); it; it = fsg_arciter_next(it)) {
            fsg_link_t *l = fsg_arciter_get(it);
            int label = VF_EPS;
            if (l->wid >= 0) {
                if ((flags & VF_FILLER_EPS) && fsg_model_is_filler(fsg, l->wid)) label = VF_EPS;
                else {
                    char buf[512];
                    const char *w = fsg_model_word_str(fsg, l->wid);
                    snprintf(buf, sizeof(buf), "%s", w ? w : "(null)");
                    if (flags & VF_MAP_ALT) {
                        size_t L = strlen(buf);
                        if (L > 3 && buf[L - 1] == ')') {
                            char *p = strrchr(buf, '(');
                            if (p && p != buf) { char *q = p + 1; int digits = 0; while (*q >= '0' && *q <= '9') { ++q; ++digits; } if (digits && q == buf + L - 1) *p = 0; }
                        }
                    }
                    label = vfsa_label(out, buf);
                }
            }
            vfsa_add(out, l->from_state, l->to_state, label, (int64_t)l->logs2prob);
            ++n;
            if (l->from_state != i) return -1 - n; /* iterator returned an arc of another state */
        }
    }
    return n;
}

long vfsa_table_size(int nsym, int maxlen)
{
    long n = 0, p = 1; int l;
    for (l = 0; l <= maxlen; ++l) { n += p; p *= nsym; }
    return n;
}
long vfsa_table_index(int nsym, const int *str, int len)
{
    long off = 0, p = 1, v = 0; int l;
    for (l = 0; l < len; ++l) { off += p; p *= nsym; }
    for (l = 0; l < len; ++l) v = v * nsym + str[l];
    return off + v;
}
void vfsa_table_string(int nsym, long idx, int *str, int *len)
{
    long p = 1; int l = 0, k;
    while (idx >= p) { idx -= p; p *= nsym; ++l; }
    *len = l;
    for (k = l - 1; k >= 0; --k) { str[k] = (int)(idx % nsym); idx /= nsym; }
}

static void relax_eps(const vfsa *f, int64_t *v, int full)
{
    int changed, i, guard = 0;
    if (full) {
        do {
            changed = 0;
            for (i = 0; i < f->narcs; ++i) {
                const varc *a = &f->arcs[i];
                if (a->label == VF_EPS && v[a->from] > VF_NEG && v[a->from] + a->w > v[a->to]) { v[a->to] = v[a->from] + a->w; changed = 1; }
            }
        } while (changed && ++guard < f->n_state + 2);
    } else {
        int64_t *old = (int64_t *)malloc(sizeof(int64_t) * (size_t)f->n_state);
        memcpy(old, v, sizeof(int64_t) * (size_t)f->n_state);
        for (i = 0; i < f->narcs; ++i) {
            const varc *a = &f->arcs[i];
            if (a->label == VF_EPS && old[a->from] > VF_NEG && old[a->from] + a->w > v[a->to]) v[a->to] = old[a->from] + a->w;
        }
        free(old);
    }
}

static void table_rec(const vfsa *f, int nsym, const int *syms, int maxlen, int eps_full, int64_t *out,
                      const int64_t *v, int *str, int len)
{
    int s, i;
    out[vfsa_table_index(nsym, str, len)] = v[f->final];
    if (len == maxlen) return;
    for (s = 0; s < nsym; ++s) {
        int64_t *nv = (int64_t *)malloc(sizeof(int64_t) * (size_t)f->n_state);
        int any = 0;
        for (i = 0; i < f->n_state; ++i) nv[i] = VF_NEG;
        for (i = 0; i < f->narcs; ++i) {
            const varc *a = &f->arcs[i];
            if (a->label == syms[s] && a->label != VF_EPS && v[a->from] > VF_NEG && v[a->from] + a->w > nv[a->to]) { nv[a->to] = v[a->from] + a->w; any = 1; }
        }
        str[len] = s;
        if (any) { relax_eps(f, nv, eps_full); table_rec(f, nsym, syms, maxlen, eps_full, out, nv, str, len + 1); }
        else {
            /* whole subtree unreachable */
            /* out[] was pre-filled with VF_NEG */
        }
        free(nv);
    }
}

void vfsa_table(const vfsa *f, int nsym, const int *syms, int maxlen, int eps_full, int64_t *out)
{
    long n = vfsa_table_size(nsym, maxlen), k;
    int64_t *v = (int64_t *)malloc(sizeof(int64_t) * (size_t)(f->n_state > 0 ? f->n_state : 1));
    int str[32], i;
    for (k = 0; k < n; ++k) out[k] = VF_NEG;
    if (f->n_state <= 0) { free(v); return; }
    for (i = 0; i < f->n_state; ++i) v[i] = VF_NEG;
    v[f->start] = 0;
    relax_eps(f, v, eps_full);
    table_rec(f, nsym, syms, maxlen, eps_full, out, v, str, 0);
    free(v);
}

void vset_clear(vset *s) { memset(s, 0, sizeof(*s)); }
int vset_empty(const vset *s) { int i; for (i = 0; i < VF_SETW; ++i) if (s->b[i]) return 0; return 1; }
void vset_add(vset *s, int i) { if (i >= 0 && i < 64 * VF_SETW) s->b[i >> 6] |= (uint64_t)1 << (i & 63); }
int vset_has(const vset *s, int i) { return (i >= 0 && i < 64 * VF_SETW) ? (int)((s->b[i >> 6] >> (i & 63)) & 1) : 0; }

void vfsa_eps_closure(const vfsa *f, vset *s)
{
    int changed, i;
    do {
        changed = 0;
        for (i = 0; i < f->narcs; ++i) {
            const varc *a = &f->arcs[i];
            if (a->label == VF_EPS && vset_has(s, a->from) && !vset_has(s, a->to)) { vset_add(s, a->to); changed = 1; }
        }
    } while (changed);
}
void vfsa_step(const vfsa *f, const vset *in, int label, vset *out)
{
    int i;
    vset_clear(out);
    if (label < 0) return;
    for (i = 0; i < f->narcs; ++i) {
        const varc *a = &f->arcs[i];
        if (a->label == label && vset_has(in, a->from)) vset_add(out, a->to);
    }
    vfsa_eps_closure(f, out);
}
int vfsa_accepts(const vfsa *f, const int *labels, int n, int need_final)
{
    vset cur, nxt; int k;
    if (f->n_state <= 0 || f->n_state > 64 * VF_SETW) return -1;
    vset_clear(&cur); vset_add(&cur, f->start); vfsa_eps_closure(f, &cur);
    for (k = 0; k < n; ++k) {
        vfsa_step(f, &cur, labels[k], &nxt);
        cur = nxt;
        if (vset_empty(&cur)) return 0;
    }
    return need_final ? vset_has(&cur, f->final) : 1;
}

static int arc_cmp(const void *x, const void *y)
{
    const varc *a = (const varc *)x, *b = (const varc *)y;
    if (a->from != b->from) return a->from < b->from ? -1 : 1;
    if (a->to != b->to) return a->to < b->to ? -1 : 1;
    if (a->label != b->label) return a->label < b->label ? -1 : 1;
    if (a->w != b->w) return a->w < b->w ? -1 : 1;
    return 0;
}
/* arcs compared by (from, to, label NAME, weight): label ids are per-vfsa */
typedef struct narc { int from, to; const char *name; int64_t w; } narc;
static int narc_cmp(const void *x, const void *y)
{
    const narc *a = (const narc *)x, *b = (const narc *)y; int c;
    if (a->from != b->from) return a->from < b->from ? -1 : 1;
    if (a->to != b->to) return a->to < b->to ? -1 : 1;
    c = strcmp(a->name, b->name); if (c) return c;
    if (a->w != b->w) return a->w < b->w ? -1 : 1;
    return 0;
}
static narc *named(const vfsa *f)
{
    narc *n = (narc *)malloc(sizeof(narc) * (size_t)(f->narcs + 1)); int i;
    for (i = 0; i < f->narcs; ++i) { n[i].from = f->arcs[i].from; n[i].to = f->arcs[i].to; n[i].w = f->arcs[i].w; n[i].name = f->arcs[i].label == VF_EPS ? "" : f->labels[f->arcs[i].label]; }
    qsort(n, (size_t)f->narcs, sizeof(narc), narc_cmp);
    return n;
}
uint64_t vfsa_arcs_hash(const vfsa *f, int with_weights)
{
    narc *n = named(f); uint64_t h = VH_H0; int i;
    for (i = 0; i < f->narcs; ++i) {
        h = vh_hash(&n[i].from, sizeof(int), h); h = vh_hash(&n[i].to, sizeof(int), h);
        h = vh_hash(n[i].name, strlen(n[i].name) + 1, h);
        if (with_weights) h = vh_hash(&n[i].w, sizeof(int64_t), h);
    }
    free(n);
    (void)arc_cmp;
    return h;
}
int vfsa_same_arcs(const vfsa *a, const vfsa *b, int with_weights, char *why, int whylen)
{
    narc *x, *y; int i, same = 1;
    if (a->narcs != b->narcs) { snprintf(why, (size_t)whylen, "%d arcs vs %d arcs", a->narcs, b->narcs); return 0; }
    x = named(a); y = named(b);
    for (i = 0; i < a->narcs; ++i) {
        if (x[i].from != y[i].from || x[i].to != y[i].to || strcmp(x[i].name, y[i].name) || (with_weights && x[i].w != y[i].w)) {
            snprintf(why, (size_t)whylen, "arc %d: %d->%d '%s' %lld  vs  %d->%d '%s' %lld", i, x[i].from, x[i].to, x[i].name, (long long)x[i].w, y[i].from, y[i].to, y[i].name, (long long)y[i].w);
            same = 0; break;
        }
    }
    free(x); free(y);
    return same;
}
