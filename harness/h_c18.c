/* h_c18.c -- C18: features and scores stay finite and within range for any audio.
 * VH_SOURCES: vfsa.c vdec.c
 *
 * Case kinds:
 *   A (front end):  random front-end configuration x adversarial signal (int16, float32 in
 *                   [-1,1], float32 up to +-8 out of range), random chunking: every cepstral value
 *                   must be finite.
 *   B (decoder):    decoder with compallsen=yes, cmn live / batch / none, adversarial audio from one
 *                   frame to minutes, full_utt or streaming with buffering: every dynamic-feature
 *                   value finite; per frame min(senone score) == 0 and 0 <= score <= 32767 (re-scored
 *                   through acmod_rewind); path score and segment scores in [WORST_SCORE, 0] and
 *                   cumulative score non-increasing along the segmentation; exported CMN state finite
 *                   and export -> import -> export is a fixed point; a normal utterance afterwards
 *                   still decodes.  UBSan (signed-integer-overflow, float-cast-overflow) watches
 *                   the arithmetic.
 */
#include "vh.h"
#include "vfsa.h"
#include "vdec.h"
#include <math.h>
#include <ctype.h>
#include <soundswallower/fe.h>
#include <soundswallower/err.h>
#include <soundswallower/ckd_alloc.h>
#include <soundswallower/hmm.h>
#include <soundswallower/cmn.h>
#include <soundswallower/ssverif.h>

static long ncases(int tier, long req) { if (req >= 0) return req; return tier ? 6000 : 400; }
static void setup(void) { err_set_loglevel(ERR_FATAL); vd_init(); }

/* ---------- adversarial signals ---------- */
static const char *sig_name[] = { "digital silence", "+-1 LSB", "full-scale square", "impulses", "DC", "white noise", "clipped speech", "alternating +-32768", "slow ramp", "speech then silence" };
#define NSIG 10
static void make_signal(vh_rng *r, int kind, int16_t *s, long n)
{
    long j, nr; const int16_t *rec = vd_recording(0, &nr);
    switch (kind) {
    case 0: memset(s, 0, sizeof(int16_t) * (size_t)n); break;
    case 1: for (j = 0; j < n; ++j) s[j] = (int16_t)vh_range(r, -1, 1); break;
    case 2: { int per = vh_range(r, 1, 500); for (j = 0; j < n; ++j) s[j] = (int16_t)(((j / per) & 1) ? 32767 : -32768); break; }
    case 3: memset(s, 0, sizeof(int16_t) * (size_t)n); for (j = 0; j < n; j += vh_range(r, 50, 20000)) s[j] = (int16_t)(vh_chance(r, 0.5) ? 32767 : -32768); break;
    case 4: { int dc = VH_PICK(r, ((int[]){ 32767, -32768, 1, -1, 12345 })); for (j = 0; j < n; ++j) s[j] = (int16_t)dc; break; }
    case 5: { int amp = VH_PICK(r, ((int[]){ 32767, 1000, 30, 3 })); for (j = 0; j < n; ++j) s[j] = (int16_t)vh_range(r, -amp - 1, amp); break; }
    case 6: for (j = 0; j < n; ++j) { long v = (long)rec[j % nr] * 50; s[j] = (int16_t)(v > 32767 ? 32767 : v < -32768 ? -32768 : v); } break;
    case 7: for (j = 0; j < n; ++j) s[j] = (int16_t)((j & 1) ? 32767 : -32768); break;
    case 8: for (j = 0; j < n; ++j) s[j] = (int16_t)((j / 7) % 65536 - 32768); break;
    default: for (j = 0; j < n; ++j) s[j] = j < n / 3 ? rec[j % nr] : 0; break;
    }
}

/* ---------- A: front end ---------- */
static void run_fe(long i, vh_rng *r)
{
    config_t *cf = config_init(NULL); fe_t *fe; int shift, size, dim, kind = (int)vh_below(r, NSIG), enc = (int)vh_below(r, 3), k, swapped;
    long n = VH_PICK(r, ((long[]){ 1, 200, 410, 1000, 8000, 40000, 160000 })), j, pos = 0, nfr = 0, bad = 0; int16_t *s; float *f; mfcc_t **buf;
    static const int rates[] = { 8000, 16000, 16000, 44100 }; int sr = VH_PICK(r, rates);
    config_set_int(cf, "samprate", sr); config_set_int(cf, "frate", VH_PICK(r, ((int[]){ 100, 50, 200 })));
    config_set_int(cf, "nfft", VH_PICK(r, ((int[]){ 0, 0, 2048 }))); config_set_str(cf, "transform", VH_PICK(r, ((const char *[]){ "legacy", "dct", "htk" })));
    config_set_int(cf, "lifter", vh_chance(r, 0.5) ? 22 : 0); config_set_bool(cf, "remove_noise", vh_chance(r, 0.6)); config_set_bool(cf, "remove_dc", vh_chance(r, 0.4));
    config_set_bool(cf, "logspec", vh_chance(r, 0.15)); config_set_bool(cf, "smoothspec", vh_chance(r, 0.15)); config_set_int(cf, "nfilt", VH_PICK(r, ((int[]){ 40, 20, 25 })));
    config_set_float(cf, "upperf", sr == 8000 ? 3500.0 : 6855.4976); config_set_float(cf, "lowerf", 133.33334); config_set_bool(cf, "dither", 0);
    /* the analysis window, the FFT size and the shape of the filter bank: a configuration the front end accepts must give finite
     * features (one it refuses is not counted) */
    if (vh_chance(r, 0.5)) {
        config_set_float(cf, "wlen", VH_PICK(r, ((double[]){ 0.01, 0.012, 0.016, 0.02, 0.025625, 0.032, 0.04, 0.064 })));
        config_set_int(cf, "nfft", VH_PICK(r, ((int[]){ 0, 0, 0, 256, 512, 1024, 4096 })));
        if (vh_chance(r, 0.4)) config_set_int(cf, "nfilt", VH_PICK(r, ((int[]){ 13, 31, 40, 60, 80 })));
        if (vh_chance(r, 0.3)) config_set_bool(cf, "round_filters", 0);
        if (vh_chance(r, 0.2)) config_set_bool(cf, "doublebw", 1);
        if (vh_chance(r, 0.2)) config_set_bool(cf, "unit_area", 0);
        if (vh_chance(r, 0.2)) { config_set_float(cf, "lowerf", VH_PICK(r, ((double[]){ 0.0, 64.0, 200.0, 1000.0 }))); config_set_float(cf, "upperf", VH_PICK(r, ((double[]){ 3400.0, 3999.0, sr / 2.0, sr / 2.0 - 1 }))); }
        if (vh_chance(r, 0.15)) { config_set_str(cf, "warp_type", VH_PICK(r, ((const char *[]){ "inverse_linear", "affine", "piecewise_linear" }))); config_set_str(cf, "warp_params", VH_PICK(r, ((const char *[]){ "1.0", "0.9", "1.15", "1.05 10", "0.95 3000" }))); }
        vh_count("front_end_shape_variants", 1);
    }
    if (vh_chance(r, 0.15)) config_set_float(cf, "alpha", 0.0);
    /* every output type (cepstra / log spectrum / smoothed spectrum) meets every signal, with and without noise removal, on enough
     * samples for several frames: the front-end runs are numbered and two thirds of them walk through that grid instead of drawing */
    if (vh_chance(r, 0.67)) {
        long q = i / 6; int ot = (int)(q % 3);
        config_set_bool(cf, "logspec", ot == 1); config_set_bool(cf, "smoothspec", ot == 2);
        kind = (int)((q / 3) % NSIG); config_set_bool(cf, "remove_noise", (int)((q / (3 * NSIG)) % 2));
        if (n < 1000) n = VH_PICK(r, ((long[]){ 1000, 8000, 40000 }));
        vh_count(ot == 0 ? "fe_grid_runs_cepstra" : ot == 1 ? "fe_grid_runs_log_spectrum" : "fe_grid_runs_smoothed_spectrum", 1);
    }
    /* audio in the other byte order, declared as such: the front end swaps every sample it reads */
    swapped = vh_chance(r, 0.15);
    if (swapped) { union { uint16_t u; unsigned char c[2]; } e; e.u = 1; config_set_str(cf, "input_endian", e.c[0] ? "big" : "little"); vh_count("fe_runs_other_byte_order", 1); }
    vh_ctx("fe_init"); fe = fe_init(cf); config_free(cf);
    if (!fe) { vh_inconc("front-end configuration refused"); return; }
    fe_get_input_size(fe, &shift, &size); dim = fe_get_output_size(fe);
    s = (int16_t *)malloc(sizeof(int16_t) * (size_t)(n + 1)); f = (float *)malloc(sizeof(float) * (size_t)(n + 1));
    make_signal(r, kind, s, n);
    for (j = 0; j < n; ++j) f[j] = enc == 2 ? (float)s[j] / 32768.0f * 8.0f : (float)s[j] / 32768.0f;
    /* float samples are not multiples of 2^-15: half of the float runs carry a fraction of an LSB in every sample (all mantissa bits in use) */
    if (enc && vh_chance(r, 0.5)) { for (j = 0; j < n; ++j) f[j] += ((float)vh_unit(r) - 0.5f) / 32768.0f; vh_count("fe_float32_full_mantissa", 1); }
    if (swapped) for (j = 0; j < n; ++j) { unsigned char *b = (unsigned char *)&s[j], t = b[0]; b[0] = b[1]; b[1] = t; b = (unsigned char *)&f[j]; t = b[0]; b[0] = b[3]; b[3] = t; t = b[1]; b[1] = b[2]; b[2] = t; }
    vh_desc("front end: samprate=%d, signal %s, %ld samples, %s%s", sr, sig_name[kind], n, enc == 0 ? "int16" : enc == 1 ? "float32 in [-1,1]" : "float32 up to +-8", swapped ? ", samples in the other byte order (input_endian set accordingly)" : "");
    buf = (mfcc_t **)ckd_calloc_2d(64, (size_t)dim, sizeof(mfcc_t));
    fe_start(fe);
    while (pos <= n) {
        long len = pos == n ? 0 : vh_range(r, 1, 9000); size_t m; int16_t *p16 = s + pos; float *pf = f + pos; int guard = 0;
        if (pos + len > n) len = n - pos;
        m = (size_t)len;
        do {
            vh_ctx(enc ? "fe_process_float32" : "fe_process_int16");
            k = enc ? fe_process_float32(fe, &pf, &m, buf, 64) : fe_process_int16(fe, &p16, &m, buf, 64);
            if (k < 0) break;
            for (j = 0; j < (long)k * dim; ++j) if (!isfinite(buf[0][j])) { ++bad; if (bad == 1) vh_viol(vh_path("cepstrum_not_finite|%s", sig_name[kind]), "cepstral value %g in frame %ld (samprate %d, %s, %s)", (double)buf[0][j], nfr + j / dim, sr, sig_name[kind], enc == 0 ? "int16" : enc == 1 ? "float32" : "float32 x8"); }
            nfr += k;
        } while (m > 0 && ++guard < 100000);
        if (pos == n) break;
        pos += len;
    }
    k = fe_end(fe, buf, 64);
    for (j = 0; j < (long)k * dim; ++j) if (!isfinite(buf[0][j])) { if (!bad) vh_viol(vh_path("cepstrum_not_finite|%s", sig_name[kind]), "cepstral value %g in the trailing frame", (double)buf[0][j]); ++bad; }
    nfr += k;
    vh_count("fe_frames_checked", nfr); vh_count("fe_runs", 1); vh_count(enc == 0 ? "fe_int16" : enc == 1 ? "fe_float32" : "fe_float32_out_of_range", 1);
    if (nfr > 0) vh_nontrivial("fe/%d/%d/%ld/%d/%d", sr, kind, n, enc, (int)(i % 97));
    ckd_free_2d(buf); free(s); free(f); fe_free(fe);
}

/* ---------- B: decoder ---------- */
static int g_tap_bad; static long g_tap_frames; static const char *g_tap_sig;
static void score_tap(void *user, int fr, const short *sc, int n)
{
    acmod_t *am = (acmod_t *)user; int i, id = 0, mn = 1 << 30;
    ++g_tap_frames;
    if (g_tap_bad) return;
    if (am->compallsen) { for (i = 0; i < n; ++i) { if (sc[i] < 0) { g_tap_bad = 1; vh_viol(vh_path("senone_score_negative|%s", g_tap_sig), "frame %d senone %d score %d < 0 as used by the search (all senones computed)", fr, i, sc[i]); return; } if (sc[i] < mn) mn = sc[i]; } }
    else {
        /* the list of senones to compute is delta-coded; every entry is computed */
        if (am->n_senone_active <= 0) return;
        for (i = 0; i < am->n_senone_active; ++i) { id += am->senone_active[i]; if (id >= n) break; if (sc[id] < 0) { g_tap_bad = 1; vh_viol(vh_path("senone_score_negative|%s", g_tap_sig), "frame %d: computed senone %d (entry %d of %d in the active list) scores %d < 0 as used by the search", fr, id, i, am->n_senone_active, sc[id]); return; } if (sc[id] < mn) mn = sc[id]; }
    }
    if (mn != 0 && mn != (1 << 30)) { g_tap_bad = 1; vh_viol(vh_path("best_senone_not_zero|%s", g_tap_sig), "frame %d: the best computed senone score is %d, not 0 (%s)", fr, mn, am->compallsen ? "all senones" : "active senones only"); }
}

static int text_finite(const char *t)
{
    const char *p;
    if (!t) return 1;
    for (p = t; *p; ++p) { if ((p[0] == 'n' || p[0] == 'N') && (p[1] == 'a' || p[1] == 'A') && (p[2] == 'n' || p[2] == 'N')) return 0; if ((p[0] == 'i' || p[0] == 'I') && (p[1] == 'n' || p[1] == 'N') && (p[2] == 'f' || p[2] == 'F')) return 0; }
    return 1;
}

/* mid-utterance: the exported text must say what the normalisation state currently is */
static void cmn_text_cb(decoder_t *d, void *user, long fed, long frames)
{
    int upd = user ? vh_chance((vh_rng *)user, 0.3) : 0;   /* update = TRUE: the estimate is brought up to date first (a documented use) */
    const char *t = decoder_get_cmn(d, upd); cmn_t *cm = d->acmod->fcb->cmn_struct; int k = 0; const char *p;
    (void)fed; (void)frames;
    if (upd) vh_count("cmn_exports_with_update_requested", 1);
    if (!t || !cm) return;
    if (!text_finite(t)) { vh_viol("cmn_state_not_finite|mid_utterance", "exported mid-utterance: %s", t); return; }
    for (p = t; *p && k < cm->veclen; ++k) {
        double v = atof(p), w = (double)cm->cmn_mean[k];
        if (fabs(v - w) > 1e-4 * fmax(1.0, fabs(w)) + 1e-6) { vh_viol("cmn_text_stale", "mid-utterance export says component %d is %g but the normalisation state holds %g (%s)", k, v, w, t); return; }
        p = strchr(p, ','); if (!p) break; ++p;
    }
    vh_count("cmn_mid_utterance_exports_checked", 1);
}

static void run_dec(long i, vh_rng *r)
{
    vd_cfg cfg; decoder_t *d; vd_audio a; vd_pattern p; vd_runinfo info; vd_result res; vh_rng cbr; int kind = (int)vh_below(r, NSIG), use_float = vh_chance(r, 0.3), lang = vh_chance(r, 0.1) ? VD_FR : VD_EN;
    long n, maxn = vh_tier ? (vh_chance(r, 0.05) ? 4800000 : 480000) : (vh_chance(r, 0.05) ? 960000 : 160000);
    const char *gram = lang == VD_FR ? "#JSGF V1.0; grammar g; public <a> = ( avance | recule | de | dix | un )+ ;" : "#JSGF V1.0; grammar g; public <a> = ( go | forward | ten | meters | a | stop )+ ;";
    vd_cfg_default(&cfg, lang); cfg.compallsen = vh_chance(r, 0.7); cfg.cmn = VH_PICK(r, ((const char *[]){ "live", "batch", "batch", "none" }));
    if (vh_chance(r, 0.3)) cfg.ds = vh_range(r, 2, 3);
    d = vd_decoder(&cfg);
    if (!d) { vh_inconc("decoder_init failed"); return; }
    n = VH_PICK(r, ((long[]){ 1, 160, 410, 411, 570, 1600, 16000, 48000, 160000, 480000 }));
    if (vh_chance(r, 0.3)) n = vh_range(r, 1, (int)(maxn < 2000000 ? maxn : 2000000));
    if (n > maxn) n = maxn;
    memset(&a, 0, sizeof(a)); a.s = (int16_t *)malloc(sizeof(int16_t) * (size_t)(n + 1)); a.n = n; a.samprate = 16000;
    make_signal(r, kind, a.s, n);
    memset(&p, 0, sizeof(p)); p.use_float = use_float;
    if (vh_chance(r, 0.5)) p.full_utt = 1; else { p.style = VH_PICK(r, ((int[]){ 0, 2, 5, 6 })); p.no_search_chunks = vh_chance(r, 0.5) ? -1 : 0; }
    if (n > 600000) { p.full_utt = 0; p.style = 5; p.no_search_chunks = 0; }   /* minutes of audio: plain streaming */
    vh_desc("decoder %s cmn=%s: %s, %ld samples (%.1f s), %s%s", lang == VD_FR ? "fr-fr" : "en-us", cfg.cmn, sig_name[kind], n, n / 16000.0, p.full_utt ? "full_utt" : p.no_search_chunks ? "buffered" : "streaming", use_float ? ", float32" : "");
    { vd_search sp; vd_search_default(&sp); vd_search_apply(d, &sp); }
    if (decoder_set_jsgf_string(d, gram) != 0) { vh_inconc("grammar refused"); goto out; }
    decoder_set_cmn(d, "40,3,-1");
    p.partial_prob = (!p.full_utt && !strcmp(cfg.cmn, "live")) ? 0.3 : 0.0;
    /* the scores the search actually uses (hook H1), also when only the active senones are computed: every computed score is a cost >= 0
     * and the best of them is exactly 0 */
    g_tap_bad = 0; g_tap_frames = 0; g_tap_sig = sig_name[kind]; ssv_senscr_tap_user = d->acmod; ssv_senscr_tap = score_tap;
    vh_rng_init(&cbr, vh_next(r), 7);
    if (vd_run(d, &a, r, &p, cmn_text_cb, &cbr, &info) != 0) { ssv_senscr_tap = NULL; vh_viol("utterance_call_failed", "start %d end %d on adversarial audio (%s)", info.start_ret, info.end_ret, sig_name[kind]); goto out; }
    /* a second pass with few senones active (forced alignment) goes through the same scorer */
    if (vh_chance(r, 0.5)) { vh_ctx("decoder_alignment"); (void)decoder_alignment(d); }
    ssv_senscr_tap = NULL;
    vh_count("frames_checked_as_scored_by_the_search", g_tap_frames);
    /* result scores */
    vd_result_get(d, &res);
    if (res.nseg > 0) {
        long cum = 0; int q;
        if (res.score > 0 || res.score < WORST_SCORE) vh_viol(vh_path("path_score_out_of_range|%s", sig_name[kind]), "path score %d outside [WORST_SCORE, 0] (%ld frames)", res.score, (long)info.sum_ret);
        for (q = 0; q < res.nseg; ++q) {
            long sc = (long)res.seg[q].ascr + res.seg[q].lscr;
            if (sc > 0) { vh_viol(vh_path("segment_score_positive|%s", sig_name[kind]), "segment %d (%s) scores %ld > 0: the cumulative path score increases", q, res.seg[q].word, sc); break; }
            cum += sc;
            if (cum < (long)WORST_SCORE) { vh_viol(vh_path("cumulative_score_below_floor|%s", sig_name[kind]), "cumulative score %ld below WORST_SCORE after segment %d", cum, q); break; }
        }
        vh_count("results_with_segmentation", 1);
    }
    vd_result_free(&res);
    /* channel normalisation state */
    {
        int upd = vh_chance(r, 0.5);   /* with update = TRUE the estimate is recomputed from whatever the utterance accumulated, possibly nothing */
        const char *c1 = decoder_get_cmn(d, upd);
        if (upd) vh_count("cmn_exports_with_update_requested", 1);
        if (c1) {
            char first[600], second[600];
            snprintf(first, sizeof(first), "%s", c1);
            if (!text_finite(first)) vh_viol(vh_path("cmn_state_not_finite|%s|cmn_%s", sig_name[kind], cfg.cmn), "exported channel-normalisation state after the utterance: %s", first);
            else {
                if (decoder_set_cmn(d, first) != 0) vh_viol("cmn_import_failed", "decoder_set_cmn refused its own export: %s", first);
                snprintf(second, sizeof(second), "%s", decoder_get_cmn(d, 0));
                if (strcmp(first, second)) vh_viol("cmn_roundtrip_not_fixed_point", "export -> import -> export changed the state: %s -> %s", first, second);
                vh_count("cmn_roundtrips_checked", 1);
            }
        }
    }
    /* features and senone scores, frame by frame (available when the whole utterance is still buffered) */
    if (cfg.compallsen && (p.full_utt || p.no_search_chunks < 0)) {
        acmod_t *am = d->acmod; int T = am->output_frame, t, ns = bin_mdef_n_sen(am->mdef), dim = feat_dimension(am->fcb), badf = 0, bads = 0;
        if (T > 0 && acmod_rewind(am) == 0) {
            for (t = 0; t < T; ++t) {
                int fr = t, q, mn = 1 << 30; const int16 *sc; mfcc_t **fv;
                sc = acmod_score(am, &fr);
                fv = am->feat_buf[am->feat_outidx];
                for (q = 0; q < dim; ++q) if (!isfinite(fv[0][q])) { if (!badf) vh_viol(vh_path("feature_not_finite|%s|cmn_%s", sig_name[kind], cfg.cmn), "dynamic feature %d of frame %d is %g", q, t, (double)fv[0][q]); ++badf; break; }
                for (q = 0; q < ns; ++q) { if (sc[q] < 0) { if (!bads) vh_viol(vh_path("senone_score_negative|%s", sig_name[kind]), "frame %d senone %d score %d < 0 (16-bit wrap)", t, q, sc[q]); ++bads; break; } if (sc[q] < mn) mn = sc[q]; }
                if (mn != 0 && !bads) { vh_viol(vh_path("best_senone_not_zero|%s", sig_name[kind]), "frame %d: best senone score is %d, not 0", t, mn); ++bads; }
                acmod_advance(am);
                if (badf && bads) break;
            }
            vh_count("frames_rescored", T); vh_count("utterances_rescored", 1);
        }
    }
    /* a normal utterance afterwards still works */
    {
        long nr; const int16_t *rec = vd_recording(lang == VD_FR ? 1 : 0, &nr); vd_audio na; vd_pattern np; vd_runinfo ni; const char *h; int32 sc;
        na.s = (int16_t *)rec; na.n = nr; na.samprate = 16000; memset(&np, 0, sizeof(np));
        int keep = vh_chance(r, 0.35);   /* the state the adversarial utterance left behind is used as it is: only finiteness is judged then */
        if (!keep) decoder_set_cmn(d, "40,3,-1"); else vh_count("normal_utterances_on_the_left_over_cmn_state", 1);
        if (vd_run(d, &na, r, &np, NULL, NULL, &ni) != 0) vh_viol("normal_utterance_failed_afterwards", "a normal utterance after %s failed", sig_name[kind]);
        else { h = decoder_hyp(d, &sc); if (!h && keep) ; else if (!h) vh_viol(vh_path("normal_utterance_no_result_afterwards|%s|cmn_%s", sig_name[kind], cfg.cmn), "no hypothesis for the bundled recording after an utterance of %s", sig_name[kind]); else if (sc > 0) vh_viol("path_score_out_of_range|normal", "score %d", sc); { const char *c2 = decoder_get_cmn(d, 0); if (c2 && !text_finite(c2)) vh_viol(vh_path("cmn_state_not_finite_afterwards|cmn_%s", cfg.cmn), "CMN state after the following normal utterance: %s", c2); } vh_count("normal_utterances_afterwards", 1); }
    }
    vh_count("decoder_runs", 1); vh_max("max_audio_seconds", n / 16000);
    vh_nontrivial("dec/%d/%ld/%s/%d%d%d", kind, n, cfg.cmn, p.full_utt, p.no_search_chunks, use_float);
    if (i % 40 == 7) vh_sample("decoder cmn=%s, %s, %.1f s, %s: scores, features, senone scores and CMN state in range", cfg.cmn, sig_name[kind], n / 16000.0, p.full_utt ? "full_utt" : "streaming");
out:
    free(a.s);
}

/* ---------- C: feature module (cepstra -> normalisation -> dynamic features), every type and normalisation mode ---------- */
static void run_feat(long i, vh_rng *r)
{
    static const char *types[] = { "1s_c_d_dd", "1s_c_d_dd", "s2_4x", "s3_1x39", "1s_c_d_ld_dd", "cep_dcep", "cep", "1s_3c", "13:2" };
    config_t *cf = config_init(NULL), *fcf = config_init(NULL); fe_t *fe; feat_t *fcb; const char *type = VH_PICK(r, types), *cmn = VH_PICK(r, ((const char *[]){ "batch", "batch", "live", "none" }));
    int varnorm = vh_chance(r, 0.4), kind = vh_chance(r, 0.5) ? VH_PICK(r, ((int[]){ 0, 0, 3, 1 })) : (int)vh_below(r, NSIG), batch = vh_chance(r, 0.6), dim, k, nfr = 0, f, st, q; long n = VH_PICK(r, ((long[]){ 410, 1000, 4000, 16000, 30000 })), bad = 0; int16_t *s, *p16; size_t m; mfcc_t **cep, ***ft;
    config_set_bool(fcf, "dither", 0);
    fe = fe_init(fcf); config_free(fcf);
    config_set_str(cf, "feat", type); config_set_str(cf, "cmn", cmn); config_set_bool(cf, "varnorm", varnorm); config_set_str(cf, "cmninit", "40,3,-1");
    vh_ctx("feat_init"); fcb = feat_init(cf); config_free(cf);
    if (!fe || !fcb) { vh_inconc("feature configuration refused"); if (fe) fe_free(fe); if (fcb) feat_free(fcb); return; }
    dim = fe_get_output_size(fe);
    s = (int16_t *)malloc(sizeof(int16_t) * (size_t)(n + 1)); make_signal(r, kind, s, n);
    if (kind == 0 && vh_chance(r, 0.5)) s[vh_below(r, 200)] = 32767;     /* digital silence with one impulse in the first frame */
    cep = (mfcc_t **)ckd_calloc_2d((size_t)(n / 160 + 8), (size_t)dim, sizeof(mfcc_t));
    p16 = s; m = (size_t)n; fe_start(fe); k = fe_process_int16(fe, &p16, &m, cep, (int)(n / 160 + 4)); if (k > 0) nfr = k; k = fe_end(fe, cep + nfr, 1); if (k > 0) nfr += k;
    vh_desc("feature module: feat=%s cmn=%s varnorm=%d, %s, %d frames, %s", type, cmn, varnorm, sig_name[kind], nfr, batch ? "one whole-utterance call" : "blocks");
    if (nfr > 0) {
        ft = feat_array_alloc(fcb, nfr + 16);
        if (batch) { int nn = nfr; vh_ctx("feat_s2mfc2feat_live(whole utterance)"); k = feat_s2mfc2feat_live(fcb, cep, &nn, 1, 1, ft); }
        else { int pos = 0, out = 0; k = 0; while (pos < nfr) { int nn = vh_range(r, 1, 40), got; if (pos + nn > nfr) nn = nfr - pos; vh_ctx("feat_s2mfc2feat_live(block)"); got = feat_s2mfc2feat_live(fcb, cep + pos, &nn, pos == 0, pos + nn >= nfr, ft + out); if (got < 0 || nn <= 0) break; out += got; pos += nn; } k = out; }
        for (f = 0; f < k; ++f) for (st = 0; st < (int)feat_dimension1(fcb); ++st) for (q = 0; q < (int)feat_dimension2(fcb, st); ++q) if (!isfinite(ft[f][st][q])) { if (!bad) vh_viol(vh_path("feature_not_finite|%s|cmn_%s|varnorm_%d", sig_name[kind], cmn, varnorm), "feature value %g in frame %d stream %d (feat=%s, %d frames, %s)", (double)ft[f][st][q], f, st, type, nfr, batch ? "whole utterance" : "blocks"); ++bad; }
        if (fcb->cmn_struct) { cmn_t *cm = fcb->cmn_struct; for (q = 0; q < cm->veclen; ++q) if (!isfinite(cm->cmn_mean[q]) || (cm->cmn_var && !isfinite(cm->cmn_var[q])) || !isfinite(cm->sum[q])) { vh_viol(vh_path("cmn_state_not_finite|feature_module|%s|varnorm_%d", sig_name[kind], varnorm), "normalisation state component %d: mean %g, var %g, sum %g", q, (double)cm->cmn_mean[q], cm->cmn_var ? (double)cm->cmn_var[q] : 0.0, (double)cm->sum[q]); break; } }
        vh_count("feature_frames_checked", k); feat_array_free(ft);
    }
    vh_count("feat_runs", 1); if (varnorm) vh_count("feat_runs_with_varnorm", 1); if (kind == 0) vh_count("feat_runs_on_digital_silence", 1);
    vh_nontrivial("feat/%s/%s/%d/%d/%ld/%d", type, cmn, varnorm, kind, n, (int)(i % 89));
    ckd_free_2d(cep); free(s); fe_free(fe); feat_free(fcb);
}

static void run(long i, vh_rng *r) { if (i % 3 == 0) { if (i % 2) run_feat(i, r); else run_fe(i, r); } else run_dec(i, r); }
static void teardown(void) { vd_drop_decoders(); }
static const vh_harness H = { "h_c18", ncases, setup, run, teardown, 600 };
int main(int argc, char **argv) { return vh_main(argc, argv, &H); }
