/* vjson.c -- strict JSON parser (see vjson.h) */
#include "vjson.h"
#include <stdlib.h>
#include <string.h>
#include <stdio.h>

typedef struct ps { const unsigned char *p, *e; const char *err; int depth; } ps;
static vj_val *val(ps *s);
static void ws(ps *s) { while (s->p < s->e && (*s->p == ' ' || *s->p == '\t' || *s->p == '\n' || *s->p == '\r')) ++s->p; }
static vj_val *mk(int t) { vj_val *v = (vj_val *)calloc(1, sizeof(*v)); v->type = t; return v; }
void vj_free(vj_val *v)
{
    int i;
    if (!v) return;
    for (i = 0; i < v->n; ++i) { vj_free(v->a[i]); if (v->k) free(v->k[i]); }
    free(v->a); free(v->k); free(v->s); free(v);
}
static int hex4(ps *s, unsigned *out)
{
    unsigned v = 0; int i;
    if (s->e - s->p < 4) return -1;
    for (i = 0; i < 4; ++i) { unsigned c = s->p[i]; v <<= 4; if (c >= '0' && c <= '9') v |= c - '0'; else if (c >= 'a' && c <= 'f') v |= c - 'a' + 10; else if (c >= 'A' && c <= 'F') v |= c - 'A' + 10; else return -1; }
    s->p += 4; *out = v; return 0;
}
static void put_utf8(char *o, size_t *n, unsigned cp)
{
    if (cp < 0x80) o[(*n)++] = (char)cp;
    else if (cp < 0x800) { o[(*n)++] = (char)(0xC0 | (cp >> 6)); o[(*n)++] = (char)(0x80 | (cp & 0x3F)); }
    else if (cp < 0x10000) { o[(*n)++] = (char)(0xE0 | (cp >> 12)); o[(*n)++] = (char)(0x80 | ((cp >> 6) & 0x3F)); o[(*n)++] = (char)(0x80 | (cp & 0x3F)); }
    else { o[(*n)++] = (char)(0xF0 | (cp >> 18)); o[(*n)++] = (char)(0x80 | ((cp >> 12) & 0x3F)); o[(*n)++] = (char)(0x80 | ((cp >> 6) & 0x3F)); o[(*n)++] = (char)(0x80 | (cp & 0x3F)); }
}
static char *str(ps *s, size_t *outlen)
{
    char *o; size_t n = 0;
    if (s->p >= s->e || *s->p != '"') { s->err = "expected string"; return NULL; }
    ++s->p;
    o = (char *)malloc((size_t)(s->e - s->p) + 8);
    for (;;) {
        unsigned c;
        if (s->p >= s->e) { s->err = "unterminated string"; free(o); return NULL; }
        c = *s->p++;
        if (c == '"') break;
        if (c < 0x20) { s->err = "unescaped control character in string"; free(o); return NULL; }
        if (c == '\\') {
            if (s->p >= s->e) { s->err = "unterminated escape"; free(o); return NULL; }
            c = *s->p++;
            switch (c) {
            case '"': o[n++] = '"'; break; case '\\': o[n++] = '\\'; break; case '/': o[n++] = '/'; break;
            case 'b': o[n++] = '\b'; break; case 'f': o[n++] = '\f'; break; case 'n': o[n++] = '\n'; break;
            case 'r': o[n++] = '\r'; break; case 't': o[n++] = '\t'; break;
            case 'u': {
                unsigned cp, lo;
                if (hex4(s, &cp) < 0) { s->err = "bad \\u escape"; free(o); return NULL; }
                if (cp >= 0xD800 && cp <= 0xDBFF) {
                    if (s->e - s->p < 6 || s->p[0] != '\\' || s->p[1] != 'u') { s->err = "lone high surrogate"; free(o); return NULL; }
                    s->p += 2;
                    if (hex4(s, &lo) < 0 || lo < 0xDC00 || lo > 0xDFFF) { s->err = "bad low surrogate"; free(o); return NULL; }
                    cp = 0x10000 + ((cp - 0xD800) << 10) + (lo - 0xDC00);
                } else if (cp >= 0xDC00 && cp <= 0xDFFF) { s->err = "lone low surrogate"; free(o); return NULL; }
                put_utf8(o, &n, cp);
                break;
            }
            default: s->err = "invalid escape"; free(o); return NULL;
            }
        } else if (c < 0x80) o[n++] = (char)c;
        else {
            /* must be well-formed UTF-8 */
            int need = (c >= 0xC2 && c <= 0xDF) ? 1 : (c >= 0xE0 && c <= 0xEF) ? 2 : (c >= 0xF0 && c <= 0xF4) ? 3 : -1, i;
            if (need < 0 || s->e - s->p < need) { s->err = "invalid UTF-8 in string"; free(o); return NULL; }
            for (i = 0; i < need; ++i) if ((s->p[i] & 0xC0) != 0x80) { s->err = "invalid UTF-8 in string"; free(o); return NULL; }
            if ((c == 0xE0 && s->p[0] < 0xA0) || (c == 0xED && s->p[0] > 0x9F) || (c == 0xF0 && s->p[0] < 0x90) || (c == 0xF4 && s->p[0] > 0x8F)) { s->err = "invalid UTF-8 in string"; free(o); return NULL; }
            o[n++] = (char)c; for (i = 0; i < need; ++i) o[n++] = (char)*s->p++;
        }
    }
    o[n] = 0; *outlen = n;
    return o;
}
static vj_val *num(ps *s)
{
    const unsigned char *b = s->p; char buf[64]; size_t L; vj_val *v;
    if (s->p < s->e && *s->p == '-') ++s->p;
    if (s->p >= s->e) { s->err = "bad number"; return NULL; }
    if (*s->p == '0') ++s->p;
    else if (*s->p >= '1' && *s->p <= '9') { while (s->p < s->e && *s->p >= '0' && *s->p <= '9') ++s->p; }
    else { s->err = "bad number"; return NULL; }
    if (s->p < s->e && *s->p == '.') { ++s->p; if (s->p >= s->e || *s->p < '0' || *s->p > '9') { s->err = "bad fraction"; return NULL; } while (s->p < s->e && *s->p >= '0' && *s->p <= '9') ++s->p; }
    if (s->p < s->e && (*s->p == 'e' || *s->p == 'E')) { ++s->p; if (s->p < s->e && (*s->p == '+' || *s->p == '-')) ++s->p; if (s->p >= s->e || *s->p < '0' || *s->p > '9') { s->err = "bad exponent"; return NULL; } while (s->p < s->e && *s->p >= '0' && *s->p <= '9') ++s->p; }
    L = (size_t)(s->p - b); if (L >= sizeof(buf)) { s->err = "number too long"; return NULL; }
    memcpy(buf, b, L); buf[L] = 0;
    v = mk(VJ_NUM); v->num = strtod(buf, NULL);
    return v;
}
static void push(vj_val *c, vj_val *item, char *key)
{
    c->a = (vj_val **)realloc(c->a, sizeof(vj_val *) * (size_t)(c->n + 1));
    if (c->type == VJ_OBJ) { c->k = (char **)realloc(c->k, sizeof(char *) * (size_t)(c->n + 1)); c->k[c->n] = key; }
    c->a[c->n++] = item;
}
static vj_val *val(ps *s)
{
    vj_val *v;
    ws(s);
    if (s->p >= s->e) { s->err = "unexpected end"; return NULL; }
    if (++s->depth > 200) { s->err = "nesting too deep"; return NULL; }
    if (*s->p == '{') {
        ++s->p; v = mk(VJ_OBJ); ws(s);
        if (s->p < s->e && *s->p == '}') { ++s->p; --s->depth; return v; }
        for (;;) {
            char *k; size_t kl; vj_val *x;
            ws(s); k = str(s, &kl); if (!k) { vj_free(v); return NULL; }
            ws(s); if (s->p >= s->e || *s->p != ':') { s->err = "expected ':'"; free(k); vj_free(v); return NULL; }
            ++s->p; x = val(s); if (!x) { free(k); vj_free(v); return NULL; }
            push(v, x, k); ws(s);
            if (s->p < s->e && *s->p == ',') { ++s->p; continue; }
            if (s->p < s->e && *s->p == '}') { ++s->p; break; }
            s->err = "expected ',' or '}'"; vj_free(v); return NULL;
        }
        --s->depth; return v;
    }
    if (*s->p == '[') {
        ++s->p; v = mk(VJ_ARR); ws(s);
        if (s->p < s->e && *s->p == ']') { ++s->p; --s->depth; return v; }
        for (;;) {
            vj_val *x = val(s); if (!x) { vj_free(v); return NULL; }
            push(v, x, NULL); ws(s);
            if (s->p < s->e && *s->p == ',') { ++s->p; continue; }
            if (s->p < s->e && *s->p == ']') { ++s->p; break; }
            s->err = "expected ',' or ']'"; vj_free(v); return NULL;
        }
        --s->depth; return v;
    }
    --s->depth;
    if (*s->p == '"') { size_t L; char *t = str(s, &L); if (!t) return NULL; v = mk(VJ_STR); v->s = t; v->slen = L; return v; }
    if (s->e - s->p >= 4 && !memcmp(s->p, "true", 4)) { s->p += 4; v = mk(VJ_BOOL); v->b = 1; return v; }
    if (s->e - s->p >= 5 && !memcmp(s->p, "false", 5)) { s->p += 5; v = mk(VJ_BOOL); return v; }
    if (s->e - s->p >= 4 && !memcmp(s->p, "null", 4)) { s->p += 4; return mk(VJ_NULL); }
    return num(s);
}
vj_val *vj_parse(const char *text, size_t len, const char **err)
{
    ps s; vj_val *v;
    s.p = (const unsigned char *)text; s.e = s.p + len; s.err = NULL; s.depth = 0;
    v = val(&s);
    if (v) { ws(&s); if (s.p != s.e) { s.err = "trailing characters after the value"; vj_free(v); v = NULL; } }
    if (!v && err) *err = s.err ? s.err : "parse error";
    return v;
}
const vj_val *vj_get(const vj_val *obj, const char *key)
{
    int i;
    if (!obj || obj->type != VJ_OBJ) return NULL;
    for (i = 0; i < obj->n; ++i) if (!strcmp(obj->k[i], key)) return obj->a[i];
    return NULL;
}
