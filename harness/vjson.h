/* vjson.h -- strict RFC 8259 JSON parser for the monitors (no extensions: no trailing commas,
 * no unescaped control characters, no invalid escapes, numbers per the grammar, valid UTF-8). */
#ifndef VJSON_H
#define VJSON_H
#include <stddef.h>
enum { VJ_NULL, VJ_BOOL, VJ_NUM, VJ_STR, VJ_ARR, VJ_OBJ };
typedef struct vj_val {
    int type;
    double num; int b;
    char *s; size_t slen;            /* string (unescaped, may contain NULs: slen is the length) */
    struct vj_val **a; int n;        /* array items / object values */
    char **k;                        /* object keys */
} vj_val;
/* parses exactly one JSON value followed only by optional whitespace; NULL + *err on error */
vj_val *vj_parse(const char *text, size_t len, const char **err);
const vj_val *vj_get(const vj_val *obj, const char *key);
void vj_free(vj_val *v);
#endif
