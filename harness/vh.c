/* vh.c -- common harness runtime (see vh.h) */
#define _GNU_SOURCE
#include "vh.h"
#include <soundswallower/err.h>
#include <errno.h>
#include <signal.h>
#include <sys/stat.h>
#include <sys/types.h>
#include <unistd.h>
#include <dirent.h>

int vh_tier = 0;
uint64_t vh_seed = 1;
long vh_case = -1;
int vh_replay = 0;
const char *vh_repo = "/repo";
const char *vh_dump_dir = NULL;

static FILE *vh_out;
static int vh_out_fd = 2;
static volatile int vh_in_case = 0;
static int vh_nt = 0;
static char vh_sig[256];
static char vh_ctx_buf[128];
static char vh_class_buf[128];
static int vh_nsample = 0, vh_max_sample = 6;
static int vh_nviol_case = 0, vh_nviol_total = 0;
static char vh_tmp[512];
static const char *vh_tmp_base = NULL;

/* weak sanitizer interface */
extern void __sanitizer_print_stack_trace(void) __attribute__((weak));
extern void __sanitizer_set_death_callback(void (*)(void)) __attribute__((weak));
extern int __lsan_do_recoverable_leak_check(void) __attribute__((weak));

/* ---------------- rng ---------------- */
static uint64_t splitmix(uint64_t *x)
{
    uint64_t z = (*x += 0x9e3779b97f4a7c15ULL);
    z = (z ^ (z >> 30)) * 0xbf58476d1ce4e5b9ULL;
    z = (z ^ (z >> 27)) * 0x94d049bb133111ebULL;
    return z ^ (z >> 31);
}
void vh_rng_init(vh_rng *r, uint64_t seed, uint64_t stream)
{
    uint64_t x = seed * 0x2545F4914F6CDD1DULL + stream * 0x9E3779B97F4A7C15ULL + 0x1234567;
    splitmix(&x);
    r->s = splitmix(&x);
    if (r->s == 0)
        r->s = 0x106689D45497FDB5ULL;
}
uint64_t vh_next(vh_rng *r)
{
    uint64_t x = r->s;
    x ^= x >> 12;
    x ^= x << 25;
    x ^= x >> 27;
    r->s = x;
    return x * 0x2545F4914F6CDD1DULL;
}
uint32_t vh_below(vh_rng *r, uint32_t n)
{
    if (n == 0)
        return 0;
    return (uint32_t)((vh_next(r) >> 33) % n);
}
int vh_range(vh_rng *r, int lo, int hi)
{
    if (hi <= lo)
        return lo;
    return lo + (int)vh_below(r, (uint32_t)(hi - lo + 1));
}
double vh_unit(vh_rng *r) { return (double)(vh_next(r) >> 11) / 9007199254740992.0; }
int vh_chance(vh_rng *r, double p) { return vh_unit(r) < p; }

uint64_t vh_hash(const void *p, size_t n, uint64_t h)
{
    const unsigned char *b = (const unsigned char *)p;
    size_t i;
    for (i = 0; i < n; ++i) {
        h ^= b[i];
        h *= 1099511628211ULL;
    }
    return h;
}

/* ---------------- string buffer ---------------- */
void vh_sb_init(vh_sb *b) { b->s = NULL; b->n = b->cap = 0; }
static void sb_need(vh_sb *b, size_t extra)
{
    if (b->n + extra + 1 > b->cap) {
        size_t nc = b->cap ? b->cap * 2 : 256;
        while (nc < b->n + extra + 1)
            nc *= 2;
        b->s = (char *)realloc(b->s, nc);
        if (!b->s) { fprintf(stderr, "vh: out of memory\n"); _exit(3); }
        b->cap = nc;
    }
}
void vh_sb_write(vh_sb *b, const void *p, size_t n)
{
    sb_need(b, n);
    memcpy(b->s + b->n, p, n);
    b->n += n;
    b->s[b->n] = 0;
}
void vh_sb_putc(vh_sb *b, int c) { char ch = (char)c; vh_sb_write(b, &ch, 1); }
void vh_sb_printf(vh_sb *b, const char *fmt, ...)
{
    va_list ap;
    int n;
    va_start(ap, fmt);
    n = vsnprintf(NULL, 0, fmt, ap);
    va_end(ap);
    if (n < 0) return;
    sb_need(b, (size_t)n);
    va_start(ap, fmt);
    vsnprintf(b->s + b->n, (size_t)n + 1, fmt, ap);
    va_end(ap);
    b->n += (size_t)n;
}
void vh_sb_free(vh_sb *b) { free(b->s); b->s = NULL; b->n = b->cap = 0; }
void vh_sb_reset(vh_sb *b) { b->n = 0; if (b->s) b->s[0] = 0; }

/* ---------------- output ---------------- */
static void json_str(FILE *f, const char *s)
{
    const unsigned char *p = (const unsigned char *)s;
    fputc('"', f);
    for (; *p; ++p) {
        if (*p == '"' || *p == '\\') { fputc('\\', f); fputc(*p, f); }
        else if (*p == '\n') fputs("\\n", f);
        else if (*p == '\t') fputs("\\t", f);
        else if (*p < 0x20 || *p >= 0x7f) fprintf(f, "\\u%04x", *p);
        else fputc(*p, f);
    }
    fputc('"', f);
}

static char *vfmt(const char *fmt, va_list ap)
{
    va_list ap2;
    int n;
    char *s;
    va_copy(ap2, ap);
    n = vsnprintf(NULL, 0, fmt, ap2);
    va_end(ap2);
    if (n < 0) n = 0;
    s = (char *)malloc((size_t)n + 1);
    vsnprintf(s, (size_t)n + 1, fmt, ap);
    return s;
}

static int vh_quiet = 0;
void vh_desc(const char *fmt, ...)
{
    va_list ap; char *s;
    if (vh_quiet) return;
    va_start(ap, fmt); s = vfmt(fmt, ap); va_end(ap);
    fprintf(vh_out, "{\"t\":\"desc\",\"case\":%ld,\"d\":", vh_case);
    json_str(vh_out, s);
    fputs("}\n", vh_out);
    fflush(vh_out);
    if (vh_replay) fprintf(stderr, "[case %ld] %s\n", vh_case, s);
    free(s);
}

void vh_viol(const char *key, const char *fmt, ...)
{
    va_list ap; char *s;
    if (vh_quiet) return;
    if (++vh_nviol_case > 8 || ++vh_nviol_total > 400) {
        vh_count("viol_lines_suppressed", 1);
        return;
    }
    va_start(ap, fmt); s = vfmt(fmt, ap); va_end(ap);
    fprintf(vh_out, "{\"t\":\"viol\",\"case\":%ld,\"key\":", vh_case);
    json_str(vh_out, key);
    fputs(",\"msg\":", vh_out);
    json_str(vh_out, s);
    fputs("}\n", vh_out);
    fflush(vh_out);
    if (vh_replay) fprintf(stderr, "[case %ld] VIOLATION %s: %s\n", vh_case, key, s);
    free(s);
}

void vh_inconc(const char *fmt, ...)
{
    va_list ap; char *s;
    if (vh_quiet) return;
    va_start(ap, fmt); s = vfmt(fmt, ap); va_end(ap);
    fprintf(vh_out, "{\"t\":\"inconc\",\"case\":%ld,\"why\":", vh_case);
    json_str(vh_out, s);
    fputs("}\n", vh_out);
    fflush(vh_out);
    if (vh_replay) fprintf(stderr, "[case %ld] inconclusive: %s\n", vh_case, s);
    free(s);
}

void vh_nontrivial(const char *sigfmt, ...)
{
    va_list ap;
    va_start(ap, sigfmt);
    vsnprintf(vh_sig, sizeof(vh_sig), sigfmt, ap);
    va_end(ap);
    vh_nt = 1;
}

void vh_sample(const char *fmt, ...)
{
    va_list ap; char *s;
    if (vh_nsample >= vh_max_sample) return;
    ++vh_nsample;
    va_start(ap, fmt); s = vfmt(fmt, ap); va_end(ap);
    fprintf(vh_out, "{\"t\":\"sample\",\"case\":%ld,\"s\":", vh_case);
    json_str(vh_out, s);
    fputs("}\n", vh_out);
    fflush(vh_out);
    free(s);
}

void vh_note(const char *fmt, ...)
{
    va_list ap;
    if (!vh_replay) return;
    va_start(ap, fmt);
    vfprintf(stderr, fmt, ap);
    va_end(ap);
    fputc('\n', stderr);
}

void vh_ctx(const char *ctx)
{
    snprintf(vh_ctx_buf, sizeof(vh_ctx_buf), "%s", ctx ? ctx : "");
}
void vh_class(const char *cls)
{
    snprintf(vh_class_buf, sizeof(vh_class_buf), "%s", cls ? cls : "");
}

/* counters */
#define VH_MAXCNT 256
static struct { char name[64]; long n; int ismax; } vh_cnt[VH_MAXCNT];
static int vh_ncnt = 0;
static int cnt_find(const char *name)
{
    int i;
    for (i = 0; i < vh_ncnt; ++i)
        if (strcmp(vh_cnt[i].name, name) == 0)
            return i;
    if (vh_ncnt == VH_MAXCNT)
        return VH_MAXCNT - 1;
    snprintf(vh_cnt[vh_ncnt].name, sizeof(vh_cnt[vh_ncnt].name), "%s", name);
    vh_cnt[vh_ncnt].n = 0;
    vh_cnt[vh_ncnt].ismax = 0;
    return vh_ncnt++;
}
void vh_count(const char *name, long n) { vh_cnt[cnt_find(name)].n += n; }
void vh_max(const char *name, long v)
{
    int i = cnt_find(name);
    vh_cnt[i].ismax = 1;
    if (v > vh_cnt[i].n) vh_cnt[i].n = v;
}

/* async-signal-safe-ish dump through write() */
static void dump_counters_fd(void)
{
    char buf[256];
    int i, n;
    for (i = 0; i < vh_ncnt; ++i) {
        n = snprintf(buf, sizeof(buf), "{\"t\":\"count\",\"name\":\"%s\",\"n\":%ld,\"max\":%d}\n",
                     vh_cnt[i].name, vh_cnt[i].n, vh_cnt[i].ismax);
        if (n > 0 && write(vh_out_fd, buf, (size_t)n) < 0) { /* ignore */ }
    }
    vh_ncnt = 0;
}

static void fate_line(const char *what)
{
    char buf[512];
    int n = snprintf(buf, sizeof(buf), "{\"t\":\"%s\",\"case\":%ld,\"ctx\":\"%s\",\"cls\":\"%s\"}\n",
                     what, vh_case, vh_ctx_buf, vh_class_buf);
    if (n > 0 && write(vh_out_fd, buf, (size_t)n) < 0) { /* ignore */ }
}

static void on_death(void)
{
    if (vh_out) fflush(vh_out);
    if (vh_in_case)
        fate_line("died");
    dump_counters_fd();
}

static void rm_rf(const char *path)
{
    DIR *d = opendir(path);
    struct dirent *e;
    char sub[1024];
    if (d) {
        while ((e = readdir(d)) != NULL) {
            if (strcmp(e->d_name, ".") == 0 || strcmp(e->d_name, "..") == 0) continue;
            snprintf(sub, sizeof(sub), "%s/%s", path, e->d_name);
            rm_rf(sub);
        }
        closedir(d);
        rmdir(path);
    } else {
        unlink(path);
    }
}

#ifdef VH_COV
extern void __gcov_dump(void);
#define VH_COV_DUMP() __gcov_dump()
#else
#define VH_COV_DUMP() ((void)0)
#endif

static void on_exit_handler(void)
{
    if (vh_out) fflush(vh_out);
    if (vh_in_case) {
        fate_line("exit");
        fprintf(stderr, "@@VH EXIT case %ld: library called exit(); stack:\n", vh_case);
        if (__sanitizer_print_stack_trace)
            __sanitizer_print_stack_trace();
        dump_counters_fd();
        if (vh_tmp[0]) rm_rf(vh_tmp);
        VH_COV_DUMP();
        _exit(97);
    }
}

extern void __asan_init(void) __attribute__((weak));
static void on_fatal_signal(int sig)
{
    /* non-ASan flavours only: leave a fate line (with the API context), then die by the signal */
    fate_line("died");
    dump_counters_fd();
    signal(sig, SIG_DFL);
    raise(sig);
}

static void on_alarm(int sig)
{
    (void)sig;
    fate_line("hang");
    dump_counters_fd();
    _exit(98);
}

static void log_sink_cb(void *user, err_lvl_t lvl, const char *msg)
{
    static volatile size_t total; (void)user; (void)lvl;
    if (msg) total += strlen(msg);
    if (msg && lvl >= ERR_FATAL) fputs(msg, stderr);   /* the driver names an exit() after the fatal message */
    vh_count("library_log_messages_formatted", 1);
}
void vh_log_sink(int level) { err_set_callback(log_sink_cb, NULL); err_set_loglevel((err_lvl_t)level); }

const char *vh_tmpdir(void)
{
    if (!vh_tmp[0]) {
        const char *base = vh_tmp_base ? vh_tmp_base : "/verif/build/tmp";
        mkdir(base, 0777);
        snprintf(vh_tmp, sizeof(vh_tmp), "%s/p%ld", base, (long)getpid());
        mkdir(vh_tmp, 0777);
    }
    return vh_tmp;
}

char *vh_path(const char *fmt, ...)
{
    static char ring[8][1024];
    static int k = 0;
    va_list ap;
    char *s = ring[k++ & 7];
    va_start(ap, fmt);
    vsnprintf(s, 1024, fmt, ap);
    va_end(ap);
    return s;
}

void *vh_read_file(const char *path, size_t *out_len)
{
    FILE *f = fopen(path, "rb");
    long n;
    char *buf;
    if (!f) return NULL;
    fseek(f, 0, SEEK_END);
    n = ftell(f);
    fseek(f, 0, SEEK_SET);
    buf = (char *)malloc((size_t)n + 1);
    if (n > 0 && fread(buf, 1, (size_t)n, f) != (size_t)n) { fclose(f); free(buf); return NULL; }
    buf[n] = 0;
    fclose(f);
    if (out_len) *out_len = (size_t)n;
    return buf;
}

int vh_write_file(const char *path, const void *data, size_t len)
{
    FILE *f = fopen(path, "wb");
    if (!f) return -1;
    if (len && fwrite(data, 1, len, f) != len) { fclose(f); return -1; }
    fclose(f);
    return 0;
}

int vh_have_lsan(void) { return __lsan_do_recoverable_leak_check != NULL; }
int vh_leak_check(void)
{
    int r;
    if (!__lsan_do_recoverable_leak_check) return 0;
    fprintf(stderr, "@@VH LEAKCHECK case %ld\n", vh_case);
    r = __lsan_do_recoverable_leak_check();
    fprintf(stderr, "@@VH LEAKCHECK-END case %ld result %d\n", vh_case, r);
    return r;
}

static const char *vh_extra_name[16], *vh_extra_val[16]; static int vh_nextra;
const char *vh_arg(const char *name, const char *def)
{
    int i;
    for (i = 0; i < vh_nextra; ++i) if (!strcmp(vh_extra_name[i], name)) return vh_extra_val[i];
    return def;
}

static void usage(const char *name)
{
    fprintf(stderr,
            "usage: %s [--seed N] [--tier quick|thorough] [--ncases N] [--shard K --nshards W]\n"
            "          [--first J] [--only I] [--out FILE] [--repo DIR] [--dump DIR] [--tmp DIR]\n",
            name);
}

int vh_main(int argc, char **argv, const vh_harness *h)
{
    long shard = 0, nshards = 1, first = 0, only = -1, req = -1, last = -1, n, j;
    const char *outpath = NULL;
    int a;
    struct sigaction sa;

    for (a = 1; a < argc; ++a) {
        const char *o = argv[a];
        const char *v = (a + 1 < argc) ? argv[a + 1] : NULL;
        if (!strcmp(o, "--seed") && v) { vh_seed = strtoull(v, NULL, 10); ++a; }
        else if (!strcmp(o, "--tier") && v) { vh_tier = !strcmp(v, "thorough"); ++a; }
        else if (!strcmp(o, "--ncases") && v) { req = atol(v); ++a; }
        else if (!strcmp(o, "--shard") && v) { shard = atol(v); ++a; }
        else if (!strcmp(o, "--nshards") && v) { nshards = atol(v); ++a; }
        else if (!strcmp(o, "--first") && v) { first = atol(v); ++a; }
        else if (!strcmp(o, "--only") && v) { only = atol(v); ++a; }
        else if (!strcmp(o, "--last") && v) { last = atol(v); ++a; }
        else if (!strcmp(o, "--out") && v) { outpath = v; ++a; }
        else if (!strcmp(o, "--repo") && v) { vh_repo = v; ++a; }
        else if (!strcmp(o, "--dump") && v) { vh_dump_dir = v; ++a; }
        else if (!strcmp(o, "--tmp") && v) { vh_tmp_base = v; ++a; }
        else if (!strcmp(o, "--samples") && v) { vh_max_sample = atoi(v); ++a; }
        else if (!strcmp(o, "--verbose")) { vh_replay = 1; }
        else if (!strncmp(o, "--x-", 4) && v && vh_nextra < 16) { vh_extra_name[vh_nextra] = o + 4; vh_extra_val[vh_nextra] = v; ++vh_nextra; ++a; }
        else { usage(h->name); return 3; }
    }
    if (outpath) {
        vh_out = fopen(outpath, "a");
        if (!vh_out) { perror(outpath); return 3; }
    } else {
        vh_out = stdout;
    }
    setvbuf(vh_out, NULL, _IOLBF, 1 << 16);
    vh_out_fd = fileno(vh_out);
    if (only >= 0) vh_replay = 1;

    atexit(on_exit_handler);
    memset(&sa, 0, sizeof(sa));
    sa.sa_handler = on_alarm;
    sigaction(SIGALRM, &sa, NULL);
    if (__sanitizer_set_death_callback)
        __sanitizer_set_death_callback(on_death);
    if (!__asan_init) {
        static char altstack[1 << 16];
        stack_t ss;
        ss.ss_sp = altstack; ss.ss_size = sizeof(altstack); ss.ss_flags = 0;
        sigaltstack(&ss, NULL);
        sa.sa_handler = on_fatal_signal;
        sa.sa_flags = SA_ONSTACK | SA_RESETHAND;
        sigaction(SIGSEGV, &sa, NULL);
        sigaction(SIGBUS, &sa, NULL);
        sigaction(SIGFPE, &sa, NULL);
        sigaction(SIGABRT, &sa, NULL);
        sigaction(SIGILL, &sa, NULL);
    }

    n = h->ncases(vh_tier, req);
    fprintf(vh_out, "{\"t\":\"start\",\"harness\":\"%s\",\"ncases\":%ld,\"shard\":%ld,\"nshards\":%ld,\"first\":%ld,\"lsan\":%d}\n",
            h->name, n, shard, nshards, first, vh_have_lsan());
    fflush(vh_out);
    if (h->setup) {
        vh_case = -1;
        h->setup();
    }
    for (j = first;; ++j) {
        long i = (only >= 0) ? only : j * nshards + shard;
        vh_rng r;
        if (i >= n) break;
        if (last >= 0 && i > last) break;
        vh_quiet = (last >= 0 && i < last);   /* history replay: earlier cases only rebuild the state */
        if (last >= 0) vh_replay = (i == last);
        vh_case = i;
        vh_nt = 0;
        vh_sig[0] = 0;
        vh_ctx_buf[0] = 0;
        vh_class_buf[0] = 0;
        vh_nviol_case = 0;
        vh_rng_init(&r, vh_seed, (uint64_t)i);
        fprintf(vh_out, "{\"t\":\"begin\",\"case\":%ld}\n", i);
        fflush(vh_out);
        fprintf(stderr, "@@VH BEGIN %ld\n", i);
        vh_in_case = 1;
        { const char *ws = getenv("VH_WATCHDOG_SCALE"); int sc = ws ? atoi(ws) : 1; alarm((unsigned)((h->watchdog_s > 0 ? h->watchdog_s : 60) * (sc > 0 ? sc : 1))); }   /* valgrind stages scale the watchdog */
        h->run(i, &r);
        alarm(0);
        vh_in_case = 0;
        fprintf(vh_out, "{\"t\":\"end\",\"case\":%ld,\"nt\":%d,\"sig\":", i, vh_nt);
        json_str(vh_out, vh_sig);
        fputs("}\n", vh_out);
        fflush(vh_out);
        if (only >= 0) break;
    }
    vh_case = -1;
    if (h->teardown)
        h->teardown();
    fflush(vh_out);
    dump_counters_fd();
    fprintf(vh_out, "{\"t\":\"done\"}\n");
    fflush(vh_out);
    if (vh_tmp[0]) rm_rf(vh_tmp);
    fflush(stderr);
    VH_COV_DUMP();
    _exit(0);
}
