/* h_dict.c -- C16: dictionary additions take effect and never disturb existing entries.
 * VH_SOURCES: vfsa.c vdec.c
 *
 * Reference model: a plain table word -> (pronunciation, base word, alternates), updated only when
 * decoder_add_word reports success.  Ground truth for pre-existing words is the harness' own parse
 * of the model's dict.txt.  One case = one history of additions / rejections / lookups / uses on a
 * fresh decoder.
 */
#include "vh.h"
#include "vfsa.h"
#include "vdec.h"
#include <ctype.h>
#include <soundswallower/dict.h>
#include <soundswallower/alignment.h>
#include <soundswallower/err.h>
#include <soundswallower/ckd_alloc.h>

static long ncases(int tier, long req) { if (req >= 0) return req; return tier ? 3000 : 160; }
static void setup(void) { err_set_loglevel(ERR_FATAL); vd_init(); }

typedef struct mword { char *word, *pron; int base; /* index of base mword, or self */ int wid; } mword;
typedef struct model { mword *w; int n, cap; } model;
static int m_find(const model *m, const char *w) { int i; for (i = 0; i < m->n; ++i) if (!strcmp(m->w[i].word, w)) return i; return -1; }
static int m_add(model *m, const char *w, const char *pron, int base, int wid)
{
    if (m->n == m->cap) { m->cap = m->cap ? m->cap * 2 : 256; m->w = (mword *)realloc(m->w, sizeof(mword) * (size_t)m->cap); }
    m->w[m->n].word = strdup(w); m->w[m->n].pron = strdup(pron); m->w[m->n].base = base < 0 ? m->n : base; m->w[m->n].wid = wid;
    return m->n++;
}
static void m_free(model *m) { int i; for (i = 0; i < m->n; ++i) { free(m->w[i].word); free(m->w[i].pron); } free(m->w); memset(m, 0, sizeof(*m)); }

/* normalise a phone string: single spaces, trimmed */
static void norm_pron(const char *in, char *out, size_t n)
{
    size_t o = 0; const char *p = in;
    while (*p) { while (*p && isspace((unsigned char)*p)) ++p; if (!*p) break; if (o && o + 1 < n) out[o++] = ' '; while (*p && !isspace((unsigned char)*p)) { if (o + 1 < n) out[o++] = *p; ++p; } }
    out[o] = 0;
}

/* observed state of a sample of pre-existing words */
typedef struct snap { const char *word; const char *pron; int wid, basewid, chainlen; int chain[12]; } snap;

static int read_chain(dict_t *dc, int base, int *out, int maxn)
{
    int n = 0, w, guard = 0;
    for (w = dict_nextalt(dc, base); w != BAD_S3WID; w = dict_nextalt(dc, w)) {
        if (w < 0 || w >= dict_size(dc)) return -1 - n;   /* chain leaves the table */
        if (n < maxn) out[n] = w;
        ++n;
        if (++guard > 10000) return -100000;               /* cycle */
    }
    return n;
}

static void check_snap(decoder_t *d, const snap *s, int ns, const char *when)
{
    dict_t *dc = d->dict; int k;
    for (k = 0; k < ns; ++k) {
        char *pr; int w = dict_wordid(dc, s[k].word), ch[12], n, q;
        if (w != s[k].wid) { vh_viol("existing_word_changed_id", "%s: '%s' had id %d, now %d", when, s[k].word, s[k].wid, w); return; }
        if (strcmp(dict_wordstr(dc, w), s[k].word)) { vh_viol("existing_word_spelling", "%s: id %d spelled '%s', was '%s'", when, w, dict_wordstr(dc, w), s[k].word); return; }
        if (dict_basewid(dc, w) != s[k].basewid) { vh_viol("existing_word_base_changed", "%s: '%s' base id %d, was %d", when, s[k].word, dict_basewid(dc, w), s[k].basewid); return; }
        vh_ctx("decoder_lookup_word");
        pr = decoder_lookup_word(d, s[k].word);
        if (!pr || strcmp(pr, s[k].pron)) { vh_viol("existing_word_pronunciation", "%s: '%s' is now pronounced '%s', dictionary file says '%s'", when, s[k].word, pr ? pr : "(null)", s[k].pron); ckd_free(pr); return; }
        ckd_free(pr);
        n = read_chain(dc, w, ch, 12);
        if (n < 0) { vh_viol("alt_chain_corrupt", "%s: alternate chain of '%s' %s (dictionary has %d entries)", when, s[k].word, n <= -100000 ? "has a cycle" : "points outside the table", dict_size(dc)); return; }
        if (w == s[k].basewid && s[k].chainlen >= 0) {
            /* pre-existing alternates must still all be there (new ones may have been added in front) */
            for (q = 0; q < s[k].chainlen && q < 12; ++q) { int j, f = 0; for (j = 0; j < n && j < 12; ++j) if (ch[j] == s[k].chain[q]) f = 1; if (!f && n <= 12) { vh_viol("existing_alt_lost", "%s: alternate id %d of '%s' is no longer in its chain", when, s[k].chain[q], s[k].word); return; } }
        }
    }
    vh_count("existing_word_checks", ns);
}

static const char *PH_EN[] = { "AA", "AE", "AH", "AO", "AW", "AY", "B", "CH", "D", "DH", "EH", "ER", "EY", "F", "G", "HH", "IH", "IY", "JH", "K", "L", "M", "N", "NG", "OW", "OY", "P", "R", "S", "SH", "T", "TH", "UH", "UW", "V", "W", "Y", "Z", "ZH" };

static void rand_pron(vh_rng *r, decoder_t *d, int np, char *out, size_t n, int messy)
{
    int k, nci = bin_mdef_n_ciphone(d->acmod->mdef); size_t o = 0;
    out[0] = 0;
    if (messy && vh_chance(r, 0.5)) o += (size_t)snprintf(out + o, n - o, "  ");
    for (k = 0; k < np; ++k) {
        const char *ph = bin_mdef_ciphone_str(d->acmod->mdef, vh_range(r, 3, nci - 1)); /* skip the fillers +NSN+ +SPN+ SIL at 0..2 mostly */
        if (vh_chance(r, 0.03)) ph = bin_mdef_ciphone_str(d->acmod->mdef, (int)vh_below(r, 3));
        o += (size_t)snprintf(out + o, n - o, "%s%s", k ? (messy && vh_chance(r, 0.2) ? "  " : " ") : "", ph);
        if (o + 8 >= n) break;
    }
    if (messy && vh_chance(r, 0.3)) snprintf(out + o, n - o, " ");
}

static void rand_word(vh_rng *r, char *out, size_t n, long uniq)
{
    static const char *shapes[] = { "zq%ld", "Zq%ld", "new-word%ld", "o'%ld", "caf\xc3\xa9%ld", "x%ld)", "(%ld", "a%ld(b", "%ld", "w_%ld.", "q\"%ld", "b\\%ld" };
    snprintf(out, n, VH_PICK(r, shapes), uniq);
    if (vh_chance(r, 0.03)) { size_t L = strlen(out); while (L + 1 < n && L < 200) out[L++] = 'y'; out[L] = 0; }
}

static void use_word(decoder_t *d, vh_rng *r, const model *m, int mi)
{
    /* the word must be usable at once: put it in an alignment text / grammar over the bundled recording,
     * with the pronunciation of "forward" so that it is actually recognised */
    long nr; const int16_t *rec = vd_recording(0, &nr); vd_audio a; vd_pattern p; vd_runinfo info; const char *h; char text[600], want[600], base[300];
    const mword *w = &m->w[mi];
    a.s = (int16_t *)rec; a.n = nr; a.samprate = 16000; memset(&p, 0, sizeof(p)); p.full_utt = vh_chance(r, 0.5);
    snprintf(base, sizeof(base), "%s", m->w[w->base].word);
    snprintf(want, sizeof(want), "go %s ten meters", base);
    if (vh_chance(r, 0.5) || strpbrk(w->word, "()\"\\=;|*+<>[]{}/")) {
        snprintf(text, sizeof(text), "go %s ten meters", w->word);
        vh_ctx("decoder_set_align_text");
        if (decoder_set_align_text(d, text) != 0) { vh_viol("new_word_not_usable_in_align_text", "decoder_set_align_text(\"%s\") failed right after adding '%s'", text, w->word); return; }
    } else {
        snprintf(text, sizeof(text), "#JSGF V1.0; grammar g; public <s> = go %s ten meters;", w->word);
        vh_ctx("decoder_set_jsgf_string");
        if (decoder_set_jsgf_string(d, text) != 0) { vh_viol("new_word_not_usable_in_grammar", "decoder_set_jsgf_string failed right after adding '%s'", w->word); return; }
    }
    decoder_set_cmn(d, "40,3,-1");
    if (vd_run(d, &a, r, &p, NULL, NULL, &info) != 0) { vh_viol("utterance_with_new_word_failed", "decoding with '%s' failed", w->word); return; }
    h = decoder_hyp(d, NULL);
    if (!h || strcmp(h, want)) vh_viol("new_word_not_reported_by_base_spelling", "text \"%s\": hypothesis \"%s\", expected \"%s\"", text, h ? h : "(none)", want);
    vh_count("utterances_with_added_words", 1);
}

/* any added word, whatever its pronunciation (one phone, many phones, phones no dictionary word of that length uses), at the start, in the
 * middle or at the end of an alignment text: the text is accepted, and when the utterance aligns, the phone level of the alignment
 * spells the word with exactly the phones it was added with (every context table the aligner consults must know the word) */
static void align_word(decoder_t *d, vh_rng *r, const model *m, int mi)
{
    long nr; const int16_t *rec = vd_recording(0, &nr); vd_audio a; vd_pattern p; vd_runinfo info; char text[900]; const mword *w = &m->w[mi];
    int pos = (int)vh_below(r, 4); alignment_t *al; alignment_iter_t *wi, *pi; int found = 0, other = 0;
    if (strlen(w->word) > 200 || strpbrk(w->word, " \t\n\r")) return;
    a.s = (int16_t *)rec; a.n = nr; a.samprate = 16000; memset(&p, 0, sizeof(p)); p.full_utt = vh_chance(r, 0.5);
    snprintf(text, sizeof(text), pos == 0 ? "%s go forward ten meters" : pos == 1 ? "go %s ten meters" : pos == 2 ? "go forward ten meters %s" : "go forward %s %s ten meters", w->word, w->word);
    vh_ctx("decoder_set_align_text");
    if (decoder_set_align_text(d, text) != 0) { vh_viol("new_word_not_usable_in_align_text", "decoder_set_align_text(\"%s\") failed after adding '%s' as '%s'", text, w->word, w->pron); return; }
    decoder_set_cmn(d, "40,3,-1");
    if (vd_run(d, &a, r, &p, NULL, NULL, &info) != 0) { vh_viol("utterance_with_new_word_failed", "decoding with '%s' failed", w->word); return; }
    vh_count("alignment_texts_with_added_words_of_any_pronunciation", 1);
    if (!decoder_hyp(d, NULL)) { vh_count("alignment_texts_with_added_words_not_aligned_by_the_first_pass", 1); return; }
    vh_ctx("decoder_alignment"); al = decoder_alignment(d);
    if (!al) { vh_viol("no_alignment_with_added_word", "text \"%s\" was recognised but decoder_alignment returned NULL ('%s' added as '%s')", text, w->word, w->pron); return; }
    for (wi = alignment_words(al); wi; wi = alignment_iter_next(wi)) {
        const char *nm = alignment_iter_name(wi); char got[1700]; size_t L = 0;
        if (!nm) continue;
        if (strcmp(nm, w->word)) {
            /* the text names a word, the first pass may take any pronunciation variant of it (fsgusealtpron): another variant of the
             * same base spelling stands for the word just as well */
            char b1[400], b2[400]; vd_base_word(nm, b1, sizeof(b1)); vd_base_word(w->word, b2, sizeof(b2));
            if (!strcmp(b1, b2) || !strcmp(nm, m->w[w->base].word)) ++other;
            continue;
        }
        got[0] = 0;
        for (pi = alignment_iter_children(wi); pi; pi = alignment_iter_next(pi)) { const char *pn = alignment_iter_name(pi); L += (size_t)snprintf(got + L, sizeof(got) - L, "%s%s", L ? " " : "", pn ? pn : "?"); if (L > sizeof(got) - 40) { alignment_iter_free(pi); break; } }
        if (strcmp(got, w->pron)) { vh_viol("aligned_phones_differ_from_added_pronunciation", "'%s' was added as '%s', the alignment of \"%s\" spells it '%s'", w->word, w->pron, text, got); alignment_iter_free(wi); return; }
        ++found;
    }
    if (!found && other) { vh_count("added_words_aligned_as_another_variant_of_the_same_word", 1); return; }
    if (!found) vh_viol("added_word_missing_from_alignment", "the alignment of \"%s\" has no word entry '%s'", text, w->word);
    else { vh_count("added_words_found_in_phone_alignments", found); if (!strchr(w->pron, ' ')) vh_count("one_phone_added_words_aligned", 1); }
}

static void run(long i, vh_rng *r)
{
    vd_cfg cfg; decoder_t *d; dict_t *dc; const vd_lex *lx = vd_lexicon(VD_EN); model m; snap *sn; int ns = 0, nsamp = 120, k, nops, big = (i % 40 == 7);
    long uniq = 0; char word[400], pron[1600], npron[1600], pend_base[200] = ""; int pend = 0, pend_exists = 0, ext = 0; int size0, nok = 0, nrej = 0, nboundary = 0;
    memset(&m, 0, sizeof(m));
    vd_cfg_default(&cfg, VD_EN);
    d = vd_decoder_fresh(&cfg);
    if (!d) { vh_inconc("decoder_init failed"); return; }
    dc = d->dict; size0 = dict_size(dc);
    /* snapshot of pre-existing words (spelling and pronunciation from the harness' own reading of dict.txt) */
    sn = (snap *)calloc((size_t)nsamp + 10, sizeof(snap));
    for (k = 0; k < nsamp + 5; ++k) {
        /* random words, three fixed ones, and the two ends of the id range: the words with the lowest and the highest id of the loaded dictionary */
        int li = k < nsamp ? (int)vh_below(r, (uint32_t)lx->n) : k < nsamp + 3 ? vd_lex_find(lx, k == nsamp ? "forward" : k == nsamp + 1 ? "the" : "a") : vd_lex_find(lx, dict_wordstr(dc, k == nsamp + 3 ? 0 : dict_filler_start(dc) - 1));
        snap *s; if (li < 0) continue;
        s = &sn[ns]; s->word = lx->word[li]; norm_pron(lx->pron[li], npron, sizeof(npron)); s->pron = strdup(npron);
        s->wid = dict_wordid(dc, s->word);
        if (s->wid == BAD_S3WID) { vh_viol("lexicon_word_missing", "'%s' from dict.txt is not in the loaded dictionary", s->word); continue; }
        s->basewid = dict_basewid(dc, s->wid); s->chainlen = read_chain(dc, s->wid, s->chain, 12);
        ++ns;
    }
    check_snap(d, sn, ns, "before any addition");
    nops = big ? 4400 : vh_range(r, 5, vh_tier ? 400 : 120);
    vh_desc("history of %d operations on a fresh en-us decoder (%d words)%s", nops, size0, big ? " -- grows past the 4096-entry reallocation step" : "");
    for (k = 0; k < nops; ++k) {
        double u = vh_unit(r); int update = big ? (k % 500 == 499) : vh_chance(r, 0.5), np, rv, before = dict_size(dc), kind, expect_ok = 1, base = -1, mi;
        if (big) u = u * 0.55;     /* mostly successful additions */
        ext = 0;
        if (pend) {
            /* right after a word that extends the spelling B (B + "ish..."): a numbered alternate of B itself.  It belongs to B when B is a
             * word, and is an alternate without base when it is not -- whatever was added just before */
            pend = 0; np = vh_range(r, 1, 5); rand_pron(r, d, np, pron, sizeof(pron), 0);
            if (pend_exists) { kind = 1; snprintf(word, sizeof(word), "%s(%d)", pend_base, 20 + (int)(++uniq % 100000)); base = m_find(&m, pend_base); if (base < 0) base = -2; }
            else { kind = 3; snprintf(word, sizeof(word), "%s(2)", pend_base); expect_ok = 0; }
            vh_count("alternates_tried_right_after_a_longer_word_with_the_same_stem", 1);
        }
        else if (u < 0.40) {
            kind = 0; rand_word(r, word, sizeof(word), ++uniq); np = vh_chance(r, 0.15) ? 1 : vh_chance(r, 0.1) ? vh_range(r, 20, 40) : vh_range(r, 2, 8); rand_pron(r, d, np, pron, sizeof(pron), 1);
            if (!big && vh_chance(r, 0.12)) {
                const char *B = NULL; int t;
                pend_exists = vh_chance(r, 0.5);
                if (pend_exists) { if (m.n && vh_chance(r, 0.5)) { for (t = 0; t < 20 && !B; ++t) { int c = (int)vh_below(r, (uint32_t)m.n); size_t L = strlen(m.w[c].word); if (m.w[c].base == c && L && L < 150 && m.w[c].word[L - 1] != ')') B = m.w[c].word; } } if (!B) for (t = 0; t < 20 && !B; ++t) { const char *c = sn[vh_below(r, (uint32_t)ns)].word; if (!strchr(c, '(') && strlen(c) < 150) B = c; } }
                if (B) snprintf(pend_base, sizeof(pend_base), "%s", B); else { pend_exists = 0; snprintf(pend_base, sizeof(pend_base), "stem%ld", uniq); }
                snprintf(word, sizeof(word), "%sish%ld", pend_base, uniq); ext = 1;
            }
        }
        else if (u < 0.55) {   /* numbered alternate of an added or existing word */
            kind = 1; np = vh_range(r, 1, 6); rand_pron(r, d, np, pron, sizeof(pron), 0);
            base = -1;
            if (m.n && vh_chance(r, 0.6)) { int t; for (t = 0; t < 20 && base < 0; ++t) { int c = (int)vh_below(r, (uint32_t)m.n); size_t L = strlen(m.w[c].word); if (m.w[c].base == c && L && m.w[c].word[L - 1] != ')') base = c; } }   /* a true base word, not itself an alternate */
            if (base >= 0) snprintf(word, sizeof(word), "%s(%d)", m.w[base].word, 20 + (int)(++uniq % 100000));
            else { const char *bw = (nboundary < 2 && ns >= 2) ? sn[ns - 1 - nboundary++].word : sn[vh_below(r, (uint32_t)ns)].word; char bb[200]; vd_base_word(bw, bb, sizeof(bb)); snprintf(word, sizeof(word), "%s(%ld)", bb, 900 + ++uniq); base = -2; if (dict_wordid(dc, bb) == BAD_S3WID) expect_ok = 0; }
        }
        else if (u < 0.62) { kind = 2; if (m.n && vh_chance(r, 0.5)) snprintf(word, sizeof(word), "%s", m.w[vh_below(r, (uint32_t)m.n)].word); else snprintf(word, sizeof(word), "%s", sn[vh_below(r, (uint32_t)ns)].word); rand_pron(r, d, 3, pron, sizeof(pron), 0); expect_ok = 0; }   /* duplicate */
        else if (u < 0.67) { kind = 3; snprintf(word, sizeof(word), "nobase%ld(2)", ++uniq); rand_pron(r, d, 3, pron, sizeof(pron), 0); expect_ok = 0; }                  /* alternate without base */
        else if (u < 0.73) { kind = 4; rand_word(r, word, sizeof(word), ++uniq); snprintf(pron, sizeof(pron), "%s", VH_PICK(r, ((const char *[]){ "AH QQ", "xx", "AH  B ~", "ah", "A H" }))); expect_ok = 0; }   /* unknown phone */
        else if (u < 0.77) { kind = 5; word[0] = 0; rand_pron(r, d, 2, pron, sizeof(pron), 0); expect_ok = 0; }                                                         /* empty word */
        else if (u < 0.82) { kind = 6; rand_word(r, word, sizeof(word), ++uniq); snprintf(pron, sizeof(pron), "%s", VH_PICK(r, ((const char *[]){ "", " ", "   \t " }))); expect_ok = 0; }        /* empty pronunciation */
        else if (u < 0.90) { /* lookup of everything added so far */
            int q;
            for (q = 0; q < m.n; ++q) { char *pr; vh_ctx("decoder_lookup_word"); pr = decoder_lookup_word(d, m.w[q].word); if (!pr || strcmp(pr, m.w[q].pron)) { vh_viol("added_word_lookup", "lookup of added word '%s' gives '%s', it was added as '%s'", m.w[q].word, pr ? pr : "(null)", m.w[q].pron); ckd_free(pr); break; } ckd_free(pr); }
            vh_count("lookups_of_added_words", m.n);
            continue;
        }
        else if (u < 0.95) { check_snap(d, sn, ns, "mid-history"); continue; }
        else {   /* use an added word right away */
            int cand = -1, q; for (q = m.n - 1; q >= 0 && q > m.n - 30; --q) if (!strcmp(m.w[q].pron, "F AO R W ER D")) { cand = q; break; }
            if (cand < 0) {
                /* add one that can be recognised: a new spelling (or a numbered alternate of it) for "forward" */
                rand_word(r, word, sizeof(word), ++uniq);
                vh_ctx("decoder_add_word");
                rv = decoder_add_word(d, word, "F AO R W ER D", 1);
                if (rv < 0) { if (!strpbrk(word, "")) vh_viol("valid_addition_rejected", "decoder_add_word('%s','F AO R W ER D') returned %d", word, rv); continue; }
                cand = m_add(&m, word, "F AO R W ER D", -1, rv); ++nok;
                if (vh_chance(r, 0.5)) { char alt[420]; snprintf(alt, sizeof(alt), "%s(2)", word); rv = decoder_add_word(d, alt, "F AO R W ER D", 1); if (rv >= 0) { cand = m_add(&m, alt, "F AO R W ER D", cand, rv); ++nok; } else vh_viol("valid_addition_rejected", "alternate '%s' of a word just added was rejected", alt); }
            }
            use_word(d, r, &m, cand);
            if (m.n > 0) align_word(d, r, &m, vh_chance(r, 0.6) ? m.n - 1 - (int)vh_below(r, (uint32_t)(m.n < 8 ? m.n : 8)) : (int)vh_below(r, (uint32_t)m.n));
            continue;
        }
        /* a spelling that happens to look like an alternate "x(y)" of a missing base is a rejection */
        if (kind == 0) { char bb[400]; vd_base_word(word, bb, sizeof(bb)); { size_t L = strlen(word); if (L > 2 && word[L - 1] == ')') { char *lp = strrchr(word, '('); if (lp && lp != word) { char tmp[400]; snprintf(tmp, sizeof(tmp), "%.*s", (int)(lp - word), word); if (dict_wordid(dc, tmp) == BAD_S3WID) expect_ok = 0; else { base = m_find(&m, tmp); if (base < 0) base = -2; } } } } }
        if (kind <= 1 && dict_wordid(dc, word) != BAD_S3WID) expect_ok = 0;   /* already there */
        norm_pron(pron, npron, sizeof(npron));
        vh_ctx("decoder_add_word");
        vh_class(kind == 0 ? "new_word" : kind == 1 ? "alternate" : kind == 2 ? "duplicate" : kind == 3 ? "alternate_without_base" : kind == 4 ? "unknown_phone" : kind == 5 ? "empty_word" : "empty_pronunciation");
        rv = decoder_add_word(d, word, pron, update);
        vh_class("");
        if (expect_ok) {
            if (rv < 0) { vh_viol("valid_addition_rejected", "decoder_add_word('%s','%s') returned %d", word, pron, rv); continue; }
            if (rv != before || dict_size(dc) != before + 1) vh_viol("new_id_not_dense", "added '%s': returned id %d, dictionary went from %d to %d entries", word, rv, before, dict_size(dc));
            mi = m_add(&m, word, npron, base >= 0 ? base : -1, rv); ++nok;
            if (ext) pend = 1;
            if (base == -2) m.w[mi].base = mi;   /* base is a pre-existing word: tracked through the dictionary below */
            /* immediate effects */
            { char *pr = decoder_lookup_word(d, word); if (!pr || strcmp(pr, npron)) vh_viol("added_word_lookup", "lookup of '%s' right after adding gives '%s', added as '%s'", word, pr ? pr : "(null)", npron); ckd_free(pr); }
            if (kind == 1 || base != -1) {
                char bb[400]; int bw, ch[12], n, q, f = 0; vd_base_word(word, bb, sizeof(bb)); { char *lp = strrchr(word, '('); if (lp) snprintf(bb, sizeof(bb), "%.*s", (int)(lp - word), word); }
                bw = dict_wordid(dc, bb);
                if (bw == BAD_S3WID || dict_basewid(dc, rv) != dict_basewid(dc, bw)) vh_viol("alternate_not_linked_to_base", "'%s' has base id %d, its base word '%s' has id %d", word, dict_basewid(dc, rv), bb, bw);
                else { n = read_chain(dc, dict_basewid(dc, bw), ch, 12); if (n < 0) vh_viol("alt_chain_corrupt", "chain of '%s' is corrupt after adding '%s'", bb, word); else { for (q = 0; q < n && q < 12; ++q) if (ch[q] == rv) f = 1; if (!f && n <= 12) vh_viol("alternate_not_in_chain", "'%s' (id %d) is not in the alternate chain of '%s'", word, rv, bb); } }
                vh_count("alternates_added", 1);
            }
            if (strlen(npron) && !strchr(npron, ' ')) vh_count("one_phone_words_added", 1);
        } else {
            ++nrej;
            if (rv >= 0) { vh_viol(vh_path("invalid_addition_accepted|%s", kind == 2 ? "duplicate" : kind == 3 ? "alternate_without_base" : kind == 4 ? "unknown_phone" : kind == 5 ? "empty_word" : kind == 6 ? "empty_pronunciation" : "other"), "decoder_add_word('%s','%s') returned %d", word, pron, rv); m_add(&m, word, npron, -1, rv); continue; }
            if (dict_size(dc) != before) vh_viol("rejection_changed_size", "rejected addition of '%s' changed the dictionary from %d to %d entries", word, before, dict_size(dc));
            /* every chain must still be sound (a rejected alternate must not stay linked) */
            { int q; for (q = 0; q < ns; ++q) { int ch[12], n = read_chain(dc, sn[q].wid, ch, 12); if (n < 0) { vh_viol(vh_path("rejection_corrupted_alt_chain|%s", kind == 2 ? "duplicate" : "other"), "after the rejected addition of '%s' the alternate chain of '%s' %s", word, sn[q].word, n <= -100000 ? "has a cycle" : "points outside the table"); break; } }
              for (q = 0; q < m.n; ++q) { int ch[12], n = read_chain(dc, m.w[q].wid, ch, 12); if (n < 0) { vh_viol(vh_path("rejection_corrupted_alt_chain|%s", kind == 2 ? "duplicate" : "other"), "after the rejected addition of '%s' the alternate chain of added word '%s' is corrupt", word, m.w[q].word); break; } } }
            vh_count(vh_path("rejections_%s", kind == 2 ? "duplicate" : kind == 3 ? "alt_without_base" : kind == 4 ? "unknown_phone" : kind == 5 ? "empty_word" : kind == 6 ? "empty_pron" : "other"), 1);
        }
    }
    check_snap(d, sn, ns, "after the history");
    { int q; for (q = 0; q < m.n; ++q) { char *pr = decoder_lookup_word(d, m.w[q].word); if (!pr || strcmp(pr, m.w[q].pron)) { vh_viol("added_word_lookup", "at the end: '%s' gives '%s', added as '%s'", m.w[q].word, pr ? pr : "(null)", m.w[q].pron); ckd_free(pr); break; } ckd_free(pr); } }
    if (dict_size(dc) != size0 + nok) vh_viol("size_accounting", "dictionary has %d entries, expected %d + %d successful additions", dict_size(dc), size0, nok);
    vh_count("successful_additions", nok); vh_count("rejected_additions", nrej); vh_max("max_additions_in_one_history", nok);
    if (dict_size(dc) - size0 > 4096) vh_count("histories_past_reallocation_step", 1);
    if (nok > 0) vh_nontrivial("%ld/%d/%d", i, nok, nrej);
    if (i % 20 == 3) vh_sample("history #%ld: %d operations, %d successful additions, %d rejections; %d pre-existing words re-verified against dict.txt", i, nops, nok, nrej, ns);
    for (k = 0; k < ns; ++k) free((void *)sn[k].pron);
    free(sn); m_free(&m);
    decoder_free(d);
    if (vh_have_lsan() && (i % 16) == 15 && vh_leak_check()) vh_viol("LSAN", "leak after decoder_free");
}

static const vh_harness H = { "h_dict", ncases, setup, run, NULL, 600 };
int main(int argc, char **argv) { (void)PH_EN; return vh_main(argc, argv, &H); }
