/* vh.h -- common harness runtime for the SoundSwallower runtime monitors.
 *
 * A harness is a C program linked against the instrumented library.  It runs a
 * deterministic sequence of cases (case i depends only on (seed, tier, i)), and
 * reports to the driver (bin/vcheck) over a JSON-lines file:
 *
 *   {"t":"begin","case":i}
 *   {"t":"desc","case":i,"d":"..."}            optional, what the case is
 *   {"t":"viol","case":i,"key":"...","msg":"..."}   oracle violation (case continues)
 *   {"t":"inconc","case":i,"why":"..."}        oracle side-condition not met
 *   {"t":"end","case":i,"nt":0|1,"sig":"..."}  nt = non-trivial, sig = distinctness signature
 *   {"t":"sample","s":"..."}                   a few written-out cases
 *   {"t":"count","name":"...","n":N}           counters (reach points, events observed)
 *   {"t":"exit"|"hang","case":i}               process fate, written from handlers
 *
 * A sanitizer abort, signal, exit() or hang inside a case is attributed by the
 * driver to the last "begin" without "end"; the driver restarts the worker
 * after that case.
 */
#ifndef VH_H
#define VH_H

#include <stdint.h>
#include <stdio.h>
#include <stdlib.h>
#include <string.h>
#include <stdarg.h>

typedef struct vh_rng { uint64_t s; } vh_rng;

void vh_rng_init(vh_rng *r, uint64_t seed, uint64_t stream);
uint64_t vh_next(vh_rng *r);
uint32_t vh_below(vh_rng *r, uint32_t n);          /* [0,n) ; n>0 */
int vh_range(vh_rng *r, int lo, int hi);           /* inclusive */
double vh_unit(vh_rng *r);                         /* [0,1) */
int vh_chance(vh_rng *r, double p);
#define VH_PICK(r, arr) ((arr)[vh_below((r), sizeof(arr) / sizeof((arr)[0]))])

extern int vh_tier;        /* 0 = quick, 1 = thorough */
extern uint64_t vh_seed;   /* VERIF_SEED */
extern long vh_case;       /* current case index */
extern int vh_replay;      /* 1 when running a single case for replay (verbose) */
extern const char *vh_repo; /* /repo */
extern const char *vh_dump_dir; /* when non-NULL, cases may dump concrete inputs there */

typedef struct vh_harness {
    const char *name;
    long (*ncases)(int tier, long requested); /* number of cases; requested<0 = default */
    void (*setup)(void);
    void (*run)(long i, vh_rng *r);
    void (*teardown)(void);
    int watchdog_s;   /* per-case wall-clock watchdog (0 = default 60) */
} vh_harness;

int vh_main(int argc, char **argv, const vh_harness *h);
/* harness-specific options are passed as "--x-NAME VALUE" */
const char *vh_arg(const char *name, const char *def);

/* reporting */
void vh_desc(const char *fmt, ...) __attribute__((format(printf, 1, 2)));
void vh_viol(const char *key, const char *fmt, ...) __attribute__((format(printf, 2, 3)));
void vh_inconc(const char *fmt, ...) __attribute__((format(printf, 1, 2)));
void vh_nontrivial(const char *sigfmt, ...) __attribute__((format(printf, 1, 2)));
void vh_sample(const char *fmt, ...) __attribute__((format(printf, 1, 2)));
void vh_count(const char *name, long n);
/* route the library's log messages (formatted by err_msg) into a sink that reads every byte of them and counts them, at the given
 * minimum level (ERR_WARN is the library's default): the formatting of messages about hostile input is part of what is monitored */
void vh_log_sink(int level);
void vh_max(const char *name, long v);  /* counter keeps the maximum */
void vh_note(const char *fmt, ...) __attribute__((format(printf, 1, 2))); /* stderr, replay mode only */
/* marks the API entry point being executed, so a crash can be attributed */
void vh_ctx(const char *ctx);
/* a case that legitimately expects the process might die uses this to tag the class of the input */
void vh_class(const char *cls);

/* hashing helper for signatures */
uint64_t vh_hash(const void *p, size_t n, uint64_t h);
#define VH_H0 1469598103934665603ULL

/* file helpers */
void *vh_read_file(const char *path, size_t *out_len);   /* malloc'd, NUL-terminated */
int vh_write_file(const char *path, const void *data, size_t len);
const char *vh_tmpdir(void);  /* per-process scratch directory under build/, removed at exit */
char *vh_path(const char *fmt, ...) __attribute__((format(printf, 1, 2))); /* static ring of buffers */

/* growable string buffer */
typedef struct vh_sb { char *s; size_t n, cap; } vh_sb;
void vh_sb_init(vh_sb *b);
void vh_sb_printf(vh_sb *b, const char *fmt, ...) __attribute__((format(printf, 2, 3)));
void vh_sb_putc(vh_sb *b, int c);
void vh_sb_write(vh_sb *b, const void *p, size_t n);
void vh_sb_free(vh_sb *b);
void vh_sb_reset(vh_sb *b);

/* LeakSanitizer (only meaningful in the asan flavour with detect_leaks=1) */
int vh_leak_check(void);  /* returns non-zero if new leaks were reported (report goes to stderr) */
int vh_have_lsan(void);

#define VH_CHECK(cond, key, ...) do { if (!(cond)) vh_viol((key), __VA_ARGS__); } while (0)

#endif
