/* vdec.h -- shared decode-scenario generator for the decoder-level monitors
 * (C01 C02 C03 C04 C07 C08 C11 C12 C14 C16 C18).
 *
 * A scenario = model x search parameters x grammar (with generator-side truth) x audio x
 * calling pattern.  Ground truth for a grammar is a vfsa built by the GENERATOR from the arcs /
 * slots / words it emitted; it never passes through fsg_model.c or jsgf.c.
 */
#ifndef VDEC_H
#define VDEC_H
#include "vh.h"
#include "vfsa.h"
#include <soundswallower/decoder.h>
#include <soundswallower/config_defs.h>

#define VD_EN 0
#define VD_FR 1

/* ---------- lexicon (parsed from the model's dict.txt by the harness) ---------- */
typedef struct vd_lex { int n; char **word; char **pron; } vd_lex;
const vd_lex *vd_lexicon(int lang);
int vd_lex_find(const vd_lex *lx, const char *word);     /* exact spelling, -1 if absent */
int vd_lex_nphones(const char *pron);
void vd_base_word(const char *word, char *out, size_t n); /* strips a trailing "(digits)" */
int vd_is_filler_word(const char *w);                     /* <sil>, <s>, </s>, [NOISE], ... by spelling */

/* ---------- model tables ---------- */
struct bin_mdef_s;
/* the model's phone for (base, left, right, word position): own search of the phone table with the documented
 * back-off (other word positions; silence for filler or word-boundary contexts; base phone).  Independent of
 * cd_tree, dict2pid and bin_mdef_phone_id. */
int vd_triphone(struct bin_mdef_s *m, int lang, int b, int l, int r, int pos);

/* ---------- audio ---------- */
typedef struct vd_audio { int16_t *s; long n; int samprate; char desc[200]; } vd_audio;
void vd_init(void);
const int16_t *vd_recording(int which, long *n);  /* 0 goforward(en) 1 goforward_fr 2 pizza(en) */
/* kind: -1 random mix, 0 speech-like only, 1 adversarial (silence, square, impulse, DC, noise, clipping) */
void vd_audio_make(vh_rng *r, int lang, int kind, long max_samples, vd_audio *out);
void vd_audio_free(vd_audio *a);

/* ---------- decoders ---------- */
typedef struct vd_cfg {
    int lang;
    int samprate;            /* 16000 or 8000 (en only) */
    const char *cmn;         /* "live", "batch", "none" */
    int compallsen;
    int frate;               /* 100 default */
    int cionly;
    int ds;                  /* frame downsampling ratio of the scorer (1 default) */
    const char *warp_type, *warp_params;   /* vocal tract length normalisation (NULL = none) */
    int skip_tmat;           /* use a copy of the model's transition matrices with Bakis skip arcs added (0->2, 1->exit) */
} vd_cfg;
extern const char *vd_loglevel;   /* "loglevel" of every configuration made by vd_make_config ("FATAL" unless a harness changes it) */
void vd_cfg_default(vd_cfg *c, int lang);
config_t *vd_make_config(const vd_cfg *c);
/* cached per process (one decoder per distinct vd_cfg, at most 4 kept) */
decoder_t *vd_decoder(const vd_cfg *c);
decoder_t *vd_decoder_fresh(const vd_cfg *c);   /* never cached; caller frees */
void vd_drop_decoders(void);

/* ---------- search parameters (read by fsg_search_init each time a grammar is loaded) ---------- */
typedef struct vd_search {
    double beam, wbeam, pbeam; int maxhmmpf;
    double lw, wip, pip, silprob, fillprob;
    int usefiller, usealtpron;
    int beam_mode;           /* 0 default 1 narrow 2 open */
} vd_search;
void vd_search_default(vd_search *s);
void vd_search_random(vh_rng *r, vd_search *s, int beam_mode);
void vd_search_apply(decoder_t *d, const vd_search *s);
void vd_search_desc(const vd_search *s, char *buf, size_t n);

/* ---------- grammars ---------- */
enum { VG_FSG_TEXT, VG_JSGF_RIGHTLINEAR, VG_JSGF_SLOTS, VG_ALIGN_TEXT, VG_NKINDS };
typedef struct vd_gram {
    int kind, lang;
    vh_sb text;              /* what is given to the decoder */
    vfsa truth;              /* labels are BASE word spellings */
    char desc[200];
    int has_onephone, has_alt_explicit, accepts_empty, has_explicit_filler;
} vd_gram;
/* transcript_bias: probability that the grammar contains the transcript of the recording */
void vd_gram_random(vh_rng *r, int lang, int kind, double transcript_bias, vd_gram *g);
int vd_gram_load(decoder_t *d, vd_gram *g);      /* 0 on success */
void vd_gram_free(vd_gram *g);
const char *vd_gram_kind_name(int kind);

/* ---------- running an utterance ---------- */
typedef struct vd_pattern {
    int full_utt;            /* one call with full_utt=TRUE */
    int use_float;           /* float32 entry point */
    int style;               /* 0 fixed 2048, 1 one streaming call, 2 random chunks, 3 tiny chunks, 4 first chunk < 1 frame, 5 huge chunks, 6 short chunk then the rest in one call */
    int no_search_chunks;    /* number of leading chunks passed with no_search=TRUE (-1 = all) */
    double no_search_prob;   /* besides: every later chunk is passed with no_search=TRUE with this probability (searched and buffered pieces interleave) */
    double partial_prob;     /* probability of a partial-result callback after a chunk */
} vd_pattern;
void vd_pattern_random(vh_rng *r, vd_pattern *p, int allow_full_utt);
void vd_pattern_desc(const vd_pattern *p, char *buf, size_t n);

typedef struct vd_runinfo {
    long ncalls, sum_ret;        /* processing calls and the sum of their return values */
    int nframes_before_end, nframes_after_end, end_ret;
    int start_ret, failed;
    long samples;
} vd_runinfo;
typedef void (*vd_partial_cb)(decoder_t *d, void *user, long samples_fed, long frames_returned_so_far);
/* start_utt, feed per pattern (calling cb at partial points), end_utt */
int vd_run(decoder_t *d, const vd_audio *a, vh_rng *r, const vd_pattern *p, vd_partial_cb cb, void *user, vd_runinfo *info);

/* ---------- result records ---------- */
typedef struct vd_seg { char word[400]; int sf, ef; int32 ascr, lscr, prob; } vd_seg;
typedef struct vd_result {
    int has_hyp; char hyp[4096]; int32 score;
    int nseg; vd_seg *seg;
    int n_frames;
} vd_result;
void vd_result_get(decoder_t *d, vd_result *out);
void vd_result_free(vd_result *r);
uint64_t vd_result_hash(const vd_result *r);
int vd_result_equal(const vd_result *a, const vd_result *b, char *why, size_t n);

#endif
