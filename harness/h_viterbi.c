/* h_viterbi.c -- C02: with pruning disabled the search returns the true Viterbi optimum.
 * VH_SOURCES: vfsa.c vdec.c
 *
 * The oracle is an independent, unpruned, unshared token-passing Viterbi over the grammar the decoder
 * actually searches (arcs read back from the loaded FSG, so fillers and alternates are "as configured"):
 * no lextree, no history table, no beams, no context compression.  Frame scores are the senone scores of
 * that utterance, re-computed by the harness through acmod_score (compallsen, so they do not depend on
 * what the search had active).  Model lookups (triphone -> senone sequence) use the harness' own search
 * of the model's phone table (vd_triphone).
 *
 * Scoring rules (the statement's "legal alignment", made explicit; DESIGN.md section C02):
 *   emission -senscr, transition -tp (skips only where tp != 255), exit in the frame of the last emission;
 *   multi-phone word: first phone ssid(p0, lc, p1, BEGIN) entered with wip+pip, inner phones +pip,
 *   last phone ssid(pn, pn-1, rc, END) entered with arc log-prob + pip, one instance per right context that
 *   can follow at the destination state; one-phone word ssid(p, lc, SIL, SINGLE) entered with
 *   lp+wip+pip, valid before any successor; filler: context-independent model, shows SIL to both sides;
 *   at most one null arc (+ its log-prob) between two words, after the start and before the end.
 */
#include "vh.h"
#include "vfsa.h"
#include "vdec.h"
#include <math.h>
#include <soundswallower/fsg_search.h>
#include <soundswallower/fsg_model.h>
#include <soundswallower/fsg_history.h>
#include <soundswallower/err.h>
#include <soundswallower/tmat.h>
#include <soundswallower/bin_mdef.h>
#include <soundswallower/mdef.h>
#include <soundswallower/dict.h>
#include <soundswallower/ssverif.h>

/* the frame scores the search itself used, recorded through hook H1 */
typedef struct tapbuf { int16 *s; int nsen, nfr, cap; unsigned char *have; } tapbuf;
static void tap_cb(void *user, int fr, const short *sc, int n)
{
    tapbuf *t = (tapbuf *)user;
    if (fr < 0 || fr > 100000) return;
    if (t->nsen == 0) t->nsen = n;
    if (n != t->nsen) return;
    if (fr >= t->cap) { int nc = t->cap ? t->cap * 2 : 256; while (nc <= fr) nc *= 2; t->s = (int16 *)realloc(t->s, sizeof(int16) * (size_t)nc * (size_t)n); t->have = (unsigned char *)realloc(t->have, (size_t)nc); memset(t->have + t->cap, 0, (size_t)(nc - t->cap)); t->cap = nc; }
    memcpy(t->s + (size_t)fr * (size_t)n, sc, sizeof(int16) * (size_t)n); t->have[fr] = 1; if (fr + 1 > t->nfr) t->nfr = fr + 1;
}

#define NEG (-(1 << 29))
#define MAXP 48
#define SHIFT 10

typedef struct ohmm { int ssid, tmat, used; int32 sc[3]; int32 ex; } ohmm;
typedef struct oarc {
    int from, to, wid; int32 lp;
    int np, ph[MAXP], filler;
    char word[96];
    ohmm *root;   /* [n_ci] by left context (filler: [0] only) */
    ohmm *mid;    /* [np-2] */
    ohmm *leaf;   /* [n_ci] by right context, only those in rcset(to) */
} oarc;
typedef struct onull { int from, to; int32 lp, raw; } onull;
typedef struct ograph {
    int ns, start, final, nci, sil;
    oarc *a; int na; onull *nl; int nnl;
    unsigned char *rcset;   /* [ns][nci] */
    bin_mdef_t *m; tmat_t *tm; int lang, cionly;
    int32 wip, pip;
} ograph;
typedef struct oseg { char word[96]; int sf, ef; } oseg;
typedef struct ocons { const oseg *s; int n; } ocons;   /* constraint: word arcs may only span a reported segment */

static long ncases(int tier, long req) { if (req >= 0) return req; return tier ? 10000 : 400; }
static void setup(void) { err_set_loglevel(ERR_FATAL); vd_init(); }

static int ssid_of(ograph *g, int b, int l, int r, int pos) { return g->m->phone[g->cionly ? b : vd_triphone(g->m, g->lang, b, l, r, pos)].ssid; }

static void graph_free(ograph *g)
{
    int i; for (i = 0; i < g->na; ++i) { free(g->a[i].root); free(g->a[i].mid); free(g->a[i].leaf); }
    free(g->a); free(g->nl); free(g->rcset); memset(g, 0, sizeof(*g));
}

/* returns 0, or -1 with *why when the grammar is outside the oracle's domain */
static int graph_build(ograph *g, decoder_t *d, int lang, int cionly, const vd_search *sp, const char **why)
{
    fsg_search_t *fs = (fsg_search_t *)d->search; fsg_model_t *fsg = fs->fsg; dict_t *dict = d->dict; logmath_t *lm = decoder_logmath(d);
    int s, i, k, cap = 0, capn = 0;
    memset(g, 0, sizeof(*g));
    g->m = d->acmod->mdef; g->tm = d->acmod->tmat; g->lang = lang; g->cionly = cionly;
    g->ns = fsg_model_n_state(fsg); g->start = fsg_model_start_state(fsg); g->final = fsg_model_final_state(fsg); g->nci = g->m->n_ciphone; g->sil = g->m->sil;
    if (bin_mdef_n_emit_state(g->m) != 3) { *why = "model is not 3-state"; return -1; }
    if (g->sil < 0) { *why = "model has no silence phone"; return -1; }
    /* penalties as configured: same arithmetic as documented for the search (log of the penalty times the language weight, in score units) */
    g->wip = (int32)(logmath_log(lm, sp->wip) * sp->lw) >> SHIFT;
    g->pip = (int32)(logmath_log(lm, sp->pip) * sp->lw) >> SHIFT;
    for (s = 0; s < g->ns; ++s) {
        fsg_arciter_t *it;
        for (it = fsg_model_arcs(fsg, s); it; it = fsg_arciter_next(it)) {
            fsg_link_t *l = fsg_arciter_get(it);
            if (fsg_link_wid(l) < 0) {
                if (g->nnl == capn) { capn = capn ? capn * 2 : 64; g->nl = (onull *)realloc(g->nl, sizeof(onull) * (size_t)capn); }
                g->nl[g->nnl].from = fsg_link_from_state(l); g->nl[g->nnl].to = fsg_link_to_state(l); g->nl[g->nnl].raw = fsg_link_logs2prob(l); g->nl[g->nnl].lp = fsg_link_logs2prob(l) >> SHIFT; ++g->nnl;
            } else {
                oarc *a; int32 dw; const char *ws = fsg_model_word_str(fsg, fsg_link_wid(l));
                if (g->na == cap) { cap = cap ? cap * 2 : 64; g->a = (oarc *)realloc(g->a, sizeof(oarc) * (size_t)cap); }
                a = &g->a[g->na]; memset(a, 0, sizeof(*a));
                a->from = fsg_link_from_state(l); a->to = fsg_link_to_state(l); a->wid = fsg_link_wid(l); a->lp = fsg_link_logs2prob(l) >> SHIFT;
                snprintf(a->word, sizeof(a->word), "%s", ws);
                dw = dict_wordid(dict, ws);
                if (dw == BAD_S3WID) { fsg_arciter_free(it); *why = "grammar word missing from the dictionary"; g->na++; return -1; }
                a->np = dict_pronlen(dict, dw);
                if (a->np > MAXP || a->np < 1) { fsg_arciter_free(it); *why = "pronunciation too long for the oracle"; g->na++; return -1; }
                for (k = 0; k < a->np; ++k) a->ph[k] = dict_pron(dict, dw, k);
                a->filler = dict_filler_word(dict, dw);
                if (a->filler && a->np != 1) { fsg_arciter_free(it); *why = "multi-phone filler"; g->na++; return -1; }
                ++g->na;
            }
        }
    }
    /* alternate pronunciations: with fsgusealtpron every dictionary pronunciation word(2), word(3), ... of a word the grammar names by its
     * base spelling is a legal way to say it, whichever of them the library has prepared arcs for (found by spelling, not through the
     * dictionary's alternate chain) */
    if (sp->usealtpron) {
        int na0 = g->na, added = 0;
        for (i = 0; i < na0; ++i) {
            int kk; char sp2[200];
            if (g->a[i].filler || strchr(g->a[i].word, '(')) continue;
            for (kk = 2; kk <= 9; ++kk) {
                int32 dw; int j2, have = 0, q2; oarc *a;
                snprintf(sp2, sizeof(sp2), "%s(%d)", g->a[i].word, kk);
                dw = dict_wordid(dict, sp2);
                if (dw == BAD_S3WID) continue;
                for (j2 = 0; j2 < g->na; ++j2) if (g->a[j2].from == g->a[i].from && g->a[j2].to == g->a[i].to && !strcmp(g->a[j2].word, sp2)) { have = 1; break; }
                if (have) continue;
                if (g->na == cap) { cap = cap ? cap * 2 : 64; g->a = (oarc *)realloc(g->a, sizeof(oarc) * (size_t)cap); }
                a = &g->a[g->na]; memset(a, 0, sizeof(*a));
                a->from = g->a[i].from; a->to = g->a[i].to; a->wid = -1; a->lp = g->a[i].lp; snprintf(a->word, sizeof(a->word), "%s", sp2);
                a->np = dict_pronlen(dict, dw);
                if (a->np > MAXP || a->np < 1) { *why = "pronunciation too long for the oracle"; g->na++; return -1; }
                for (q2 = 0; q2 < a->np; ++q2) a->ph[q2] = dict_pron(dict, dw, q2);
                a->filler = 0; ++g->na; ++added;
            }
        }
        if (added) vh_count("grammars_where_the_oracle_adds_alternate_pronunciation_arcs", 1);
        vh_count("oracle_alternate_arcs_added", added);
    }
    /* the oracle's own closure of the null arcs (best product over every chain, Floyd-Warshall on the unshifted log probabilities):
     * a legal alignment may pass any chain of null transitions between two words, whatever composite arcs the library has prepared */
    if (g->nnl > 0 && g->ns <= 160) {
        int ns = g->ns, a2, b2, c2, n2 = 0; int64_t *M = (int64_t *)malloc(sizeof(int64_t) * (size_t)ns * (size_t)ns); const int64_t none = INT64_MIN / 4;
        for (i = 0; i < ns * ns; ++i) M[i] = none;
        for (i = 0; i < g->nnl; ++i) if (g->nl[i].from != g->nl[i].to && M[g->nl[i].from * ns + g->nl[i].to] < g->nl[i].raw) M[g->nl[i].from * ns + g->nl[i].to] = g->nl[i].raw;
        for (c2 = 0; c2 < ns; ++c2) for (a2 = 0; a2 < ns; ++a2) { if (M[a2 * ns + c2] == none || a2 == c2) continue; for (b2 = 0; b2 < ns; ++b2) { int64_t v; if (b2 == a2 || b2 == c2 || M[c2 * ns + b2] == none) continue; v = M[a2 * ns + c2] + M[c2 * ns + b2]; if (v > M[a2 * ns + b2]) M[a2 * ns + b2] = v; } }
        for (i = 0; i < ns * ns; ++i) if (M[i] != none) ++n2;
        { int improved = 0, added = n2; onull *nn = (onull *)malloc(sizeof(onull) * (size_t)(n2 + 1)); int q = 0;
          for (a2 = 0; a2 < ns; ++a2) for (b2 = 0; b2 < ns; ++b2) if (M[a2 * ns + b2] != none) { int64_t v = M[a2 * ns + b2]; if (v < -(1 << 30)) v = -(1 << 30); nn[q].from = a2; nn[q].to = b2; nn[q].raw = (int32)v; nn[q].lp = (int32)v >> SHIFT; ++q; }
          for (i = 0; i < g->nnl; ++i) { if (g->nl[i].from == g->nl[i].to) continue; --added; if (M[g->nl[i].from * ns + g->nl[i].to] > g->nl[i].raw) ++improved; }
          if (improved || added > 0) vh_count("grammars_where_the_oracle_closure_improves_on_the_library_arcs", 1);
          free(g->nl); g->nl = nn; g->nnl = q; }
        free(M);
        vh_count("oracle_null_closures", 1);
    }
    /* right contexts that can follow at each state: first phones of the words leaving it (SIL for fillers), SIL, and the same one null arc further */
    g->rcset = (unsigned char *)calloc((size_t)g->ns * (size_t)g->nci, 1);
    for (s = 0; s < g->ns; ++s) g->rcset[s * g->nci + g->sil] = 1;
    for (i = 0; i < g->na; ++i) g->rcset[g->a[i].from * g->nci + (g->a[i].filler ? g->sil : g->a[i].ph[0])] = 1;
    {
        unsigned char *base = (unsigned char *)malloc((size_t)g->ns * (size_t)g->nci); memcpy(base, g->rcset, (size_t)g->ns * (size_t)g->nci);
        for (i = 0; i < g->nnl; ++i) for (k = 0; k < g->nci; ++k) if (base[g->nl[i].to * g->nci + k]) g->rcset[g->nl[i].from * g->nci + k] = 1;
        free(base);
    }
    for (i = 0; i < g->na; ++i) {
        oarc *a = &g->a[i]; int tm = g->m->phone[a->ph[0]].tmat;
        a->root = (ohmm *)calloc((size_t)g->nci, sizeof(ohmm));
        if (a->filler) { a->root[0].ssid = g->m->phone[a->ph[0]].ssid; a->root[0].tmat = tm; a->root[0].used = 1; }
        else if (a->np == 1) { for (k = 0; k < g->nci; ++k) { a->root[k].ssid = ssid_of(g, a->ph[0], k, g->sil, WORD_POSN_SINGLE); a->root[k].tmat = tm; a->root[k].used = 1; } }
        else {
            for (k = 0; k < g->nci; ++k) { a->root[k].ssid = ssid_of(g, a->ph[0], k, a->ph[1], WORD_POSN_BEGIN); a->root[k].tmat = tm; a->root[k].used = 1; }
            if (a->np > 2) { a->mid = (ohmm *)calloc((size_t)a->np - 2, sizeof(ohmm)); for (k = 1; k < a->np - 1; ++k) { a->mid[k - 1].ssid = ssid_of(g, a->ph[k], a->ph[k - 1], a->ph[k + 1], WORD_POSN_INTERNAL); a->mid[k - 1].tmat = g->m->phone[a->ph[k]].tmat; a->mid[k - 1].used = 1; } }
            a->leaf = (ohmm *)calloc((size_t)g->nci, sizeof(ohmm));
            for (k = 0; k < g->nci; ++k) if (g->rcset[a->to * g->nci + k]) { a->leaf[k].ssid = ssid_of(g, a->ph[a->np - 1], a->ph[a->np - 2], k, WORD_POSN_END); a->leaf[k].tmat = g->m->phone[a->ph[a->np - 1]].tmat; a->leaf[k].used = 1; }
        }
    }
    return 0;
}

static inline int32 mx(int32 a, int32 b) { return a > b ? a : b; }
static inline int32 addp(int32 a, int32 p) { return a <= NEG ? NEG : a + p; }
static void oh_clear(ohmm *h) { h->sc[0] = h->sc[1] = h->sc[2] = NEG; h->ex = NEG; }
static void oh_step(const ograph *g, ohmm *h, const int16 *sen)
{
    const uint8 *const *tp = (const uint8 *const *)g->tm->tp[h->tmat]; const uint16 *sq = g->m->sseq[h->ssid];
    int32 e0 = addp(h->sc[0], -(int32)sen[sq[0]]), e1 = addp(h->sc[1], -(int32)sen[sq[1]]), e2 = addp(h->sc[2], -(int32)sen[sq[2]]);
    int32 ex, n2, n1, n0;
    ex = addp(e2, -(int32)tp[2][3]); if (tp[1][3] != 255) ex = mx(ex, addp(e1, -(int32)tp[1][3]));
    n2 = mx(addp(e2, -(int32)tp[2][2]), addp(e1, -(int32)tp[1][2])); if (tp[0][2] != 255) n2 = mx(n2, addp(e0, -(int32)tp[0][2]));
    n1 = mx(addp(e1, -(int32)tp[1][1]), addp(e0, -(int32)tp[0][1]));
    n0 = addp(e0, -(int32)tp[0][0]);
    h->sc[0] = n0; h->sc[1] = n1; h->sc[2] = n2; h->ex = ex;
}
static inline void oh_in(ohmm *h, int32 s) { if (s > h->sc[0]) h->sc[0] = s; }
static inline int32 oh_best(const ohmm *h) { return mx(mx(h->sc[0], h->sc[1]), mx(h->sc[2], h->ex)); }

static int cons_entry(const ocons *c, const oarc *a, int t) { int k; if (!c) return 1; for (k = 0; k < c->n; ++k) if (c->s[k].sf == t && !strcmp(c->s[k].word, a->word)) return 1; return 0; }
static int cons_exit(const ocons *c, const oarc *a, int t) { int k; if (!c) return 1; for (k = 0; k < c->n; ++k) if (c->s[k].ef == t && !strcmp(c->s[k].word, a->word)) return 1; return 0; }

/* token arrays: E[s][l][r], r == nci means "valid before any right context" */
#define EIDX(g, s, l, r) ((((size_t)(s) * (size_t)(g)->nci) + (size_t)(l)) * ((size_t)(g)->nci + 1) + (size_t)(r))

typedef struct oresult { int32 *opt_final, *opt_any; int T; int beam_ok; } oresult;

/* prune_margin > 0: additionally drop everything more than (524288 - margin) below the frame best (admissibility probe) */
static void oracle_run(ograph *g, const int16 *sen, int nsen, int T, const ocons *cons, int32 prune, oresult *out)
{
    size_t esz = (size_t)g->ns * (size_t)g->nci * ((size_t)g->nci + 1); int32 *E0 = (int32 *)malloc(sizeof(int32) * esz), *E1 = (int32 *)malloc(sizeof(int32) * esz);
    int t, i, k, l, r; size_t q; unsigned char *has = (unsigned char *)calloc((size_t)g->ns + 1, 1);
    out->opt_final = (int32 *)malloc(sizeof(int32) * (size_t)(T + 1)); out->opt_any = (int32 *)malloc(sizeof(int32) * (size_t)(T + 1)); out->T = T;
    for (i = 0; i < g->na; ++i) { oarc *a = &g->a[i]; for (k = 0; k < g->nci; ++k) { oh_clear(&a->root[k]); if (a->leaf) oh_clear(&a->leaf[k]); } for (k = 0; k < a->np - 2; ++k) oh_clear(&a->mid[k]); }
    for (t = -1; t < T; ++t) {
        int32 best = NEG;
        for (q = 0; q < esz; ++q) E0[q] = NEG;
        if (t < 0) E0[EIDX(g, g->start, g->sil, g->nci)] = 0;
        else {
            const int16 *sf = sen + (size_t)t * (size_t)nsen;
            /* 1. every HMM takes frame t */
            for (i = 0; i < g->na; ++i) {
                oarc *a = &g->a[i];
                for (k = 0; k < g->nci; ++k) { if (a->root[k].used) { oh_step(g, &a->root[k], sf); best = mx(best, oh_best(&a->root[k])); } if (a->leaf && a->leaf[k].used) { oh_step(g, &a->leaf[k], sf); best = mx(best, oh_best(&a->leaf[k])); } }
                for (k = 0; k < a->np - 2; ++k) { oh_step(g, &a->mid[k], sf); best = mx(best, oh_best(&a->mid[k])); }
            }
            if (prune) {
                int32 th = best - prune;
                for (i = 0; i < g->na; ++i) { oarc *a = &g->a[i]; int j;
                    for (k = 0; k < g->nci; ++k) { for (j = 0; j < 3; ++j) { if (a->root[k].sc[j] < th) a->root[k].sc[j] = NEG; if (a->leaf && a->leaf[k].sc[j] < th) a->leaf[k].sc[j] = NEG; } if (a->root[k].ex < th) a->root[k].ex = NEG; if (a->leaf && a->leaf[k].ex < th) a->leaf[k].ex = NEG; }
                    for (k = 0; k < a->np - 2; ++k) { for (j = 0; j < 3; ++j) if (a->mid[k].sc[j] < th) a->mid[k].sc[j] = NEG; if (a->mid[k].ex < th) a->mid[k].ex = NEG; } }
            }
            /* 2. exits: inside the word to the next phone (frame t+1), at the word end into the tokens */
            for (i = 0; i < g->na; ++i) {
                oarc *a = &g->a[i]; int lastp = a->ph[a->np - 1];
                if (a->filler) { if (cons_exit(cons, a, t) && a->root[0].ex > NEG) { size_t e = EIDX(g, a->to, g->sil, g->nci); E0[e] = mx(E0[e], a->root[0].ex); } continue; }
                if (a->np == 1) { int32 b = NEG; for (k = 0; k < g->nci; ++k) b = mx(b, a->root[k].ex); if (cons_exit(cons, a, t) && b > NEG) { size_t e = EIDX(g, a->to, lastp, g->nci); E0[e] = mx(E0[e], b); } continue; }
                {
                    int32 x = NEG; for (k = 0; k < g->nci; ++k) x = mx(x, a->root[k].ex);     /* the left-context variants merge after the first phone */
                    /* order matters: a phone's exit computed in this frame must not pass through the next phone in the same frame, so go from the end */
                    if (a->np > 2) {
                        int32 xm = a->mid[a->np - 3].ex;
                        for (k = 0; k < g->nci; ++k) if (a->leaf[k].used) oh_in(&a->leaf[k], addp(xm, a->lp + g->pip));
                        for (k = a->np - 3; k >= 1; --k) oh_in(&a->mid[k], addp(a->mid[k - 1].ex, g->pip));
                        oh_in(&a->mid[0], addp(x, g->pip));
                    } else for (k = 0; k < g->nci; ++k) if (a->leaf[k].used) oh_in(&a->leaf[k], addp(x, a->lp + g->pip));
                    if (cons_exit(cons, a, t)) for (k = 0; k < g->nci; ++k) if (a->leaf[k].used && a->leaf[k].ex > NEG) { size_t e = EIDX(g, a->to, lastp, k); E0[e] = mx(E0[e], a->leaf[k].ex); }
                }
            }
        }
        /* 3. at most one null arc (tokens are sparse: only states that hold any are scanned) */
        memcpy(E1, E0, sizeof(int32) * esz);
        { int s2; for (s2 = 0; s2 < g->ns; ++s2) { size_t b0 = EIDX(g, s2, 0, 0), w = (size_t)g->nci * ((size_t)g->nci + 1); has[s2] = 0; for (q = 0; q < w; ++q) if (E0[b0 + q] > NEG) { has[s2] = 1; break; } } }
        for (i = 0; i < g->nnl; ++i) { const onull *n = &g->nl[i]; if (!has[n->from]) continue; for (l = 0; l < g->nci; ++l) for (r = 0; r <= g->nci; ++r) { int32 v = E0[EIDX(g, n->from, l, r)]; if (v > NEG) { size_t e = EIDX(g, n->to, l, r); E1[e] = mx(E1[e], v + n->lp); } } }
        if (t >= 0) {
            int32 of = NEG, oa = NEG; int s;
            for (s = 0; s < g->ns; ++s) for (l = 0; l < g->nci; ++l) for (r = 0; r <= g->nci; ++r) { int32 v = E1[EIDX(g, s, l, r)]; if (v > oa) oa = v; if (s == g->final && v > of) of = v; }
            out->opt_final[t] = of; out->opt_any[t] = oa;
        }
        /* 4. word entries for frame t+1 */
        if (t + 1 < T) for (i = 0; i < g->na; ++i) {
            oarc *a = &g->a[i]; int fp = a->filler ? g->sil : a->ph[0];
            if (!cons_entry(cons, a, t + 1)) continue;
            if (a->filler) { int32 b = NEG; for (l = 0; l < g->nci; ++l) b = mx(b, mx(E1[EIDX(g, a->from, l, g->nci)], E1[EIDX(g, a->from, l, fp)])); oh_in(&a->root[0], addp(b, a->lp + g->wip + g->pip)); }
            else for (l = 0; l < g->nci; ++l) { int32 in = mx(E1[EIDX(g, a->from, l, g->nci)], E1[EIDX(g, a->from, l, fp)]); if (in > NEG) oh_in(&a->root[l], in + (a->np == 1 ? a->lp : 0) + g->wip + g->pip); }
        }
    }
    free(E0); free(E1); free(has);
}
static void oresult_free(oresult *o) { free(o->opt_final); free(o->opt_any); memset(o, 0, sizeof(*o)); }

static void run(long i, vh_rng *r)
{
    vd_cfg cfg; vd_search sp; vd_gram g; vd_audio a; vd_pattern p; vd_runinfo info; decoder_t *d; ograph og; oresult full, cons, pruned;
    int lang = vh_chance(r, 0.12) ? VD_FR : VD_EN, beam_mode, T, t, nsen, have_graph = 0, have_score, k, nw = 0, ef_last = -1; int32 score = 0x7fffffff; const char *hyp, *why = NULL;
    int16 *sen = NULL; tapbuf tap; vd_result res; oseg *segs = NULL; ocons oc; char sdesc[300], pdesc[200], hypbuf[2048];
    memset(&tap, 0, sizeof(tap)); memset(&g, 0, sizeof(g)); memset(&a, 0, sizeof(a)); memset(&res, 0, sizeof(res)); memset(&full, 0, sizeof(full)); memset(&cons, 0, sizeof(cons)); memset(&pruned, 0, sizeof(pruned));
    vd_cfg_default(&cfg, lang);
    cfg.compallsen = 1;
    cfg.cionly = vh_chance(r, 0.1);
    if (vh_chance(r, 0.16)) { cfg.skip_tmat = vh_chance(r, 0.5) ? 2 : 1; vh_count(cfg.skip_tmat == 2 ? "scenarios_with_skip_transitions_in_some_matrices_only" : "scenarios_with_skip_transitions", 1); }   /* Bakis topology: the oracle takes the skip arcs wherever the matrices have them */
    if (vh_chance(r, 0.1)) cfg.cmn = VH_PICK(r, ((const char *[]){ "batch", "none" }));
    d = vd_decoder(&cfg);
    if (!d) { vh_inconc("decoder_init failed"); return; }
    decoder_set_cmn(d, "40,3,-1");
    beam_mode = vh_chance(r, 0.62) ? 2 : vh_chance(r, 0.5) ? 0 : 1;
    vd_search_random(r, &sp, beam_mode);
    vd_search_apply(d, &sp);
    vd_gram_random(r, lang, vh_chance(r, 0.5) ? VG_FSG_TEXT : -1, 0.5, &g);
    if (vh_chance(r, 0.15)) {
        /* words added at run time: their context-dependent models are filled in by another code path than those of the dictionary
         * file, and the optimum must not depend on how a pronunciation entered the dictionary.  Pronunciations are arbitrary
         * sequences over the model's phones, so most of their word-initial and word-final phone pairs occur in no other word. */
        char nw[2][40], ph[2][160]; int q, kk; bin_mdef_t *md = d->acmod->mdef; const char *w1 = lang == VD_FR ? "avance" : "go", *w2 = lang == VD_FR ? "dix" : "ten", *w3 = lang == VD_FR ? "de" : "forward";
        for (q = 0; q < 2; ++q) {
            int n = VH_PICK(r, ((int[]){ 1, 2, 2, 4, 4, 5, 6 }));
            snprintf(nw[q], sizeof(nw[q]), "c02w%ld_%d_%d", i, (int)(vh_seed % 1000), q); ph[q][0] = 0;
            for (kk = 0; kk < n; ++kk) { int ci, gd = 0; do { ci = (int)vh_below(r, (uint32_t)md->n_ciphone); } while (md->phone[ci].info.ci.filler && ++gd < 50); strcat(ph[q], kk ? " " : ""); strcat(ph[q], md->ciname[ci]); }
            vh_ctx("decoder_add_word"); if (decoder_add_word(d, nw[q], ph[q], q) < 0) { vh_inconc("decoder_add_word refused %s = %s", nw[q], ph[q]); goto out; }
        }
        vd_gram_free(&g); memset(&g, 0, sizeof(g)); g.kind = VG_FSG_TEXT; g.lang = lang; vh_sb_init(&g.text); vfsa_init(&g.truth, 1, 0, 0);
        vh_sb_printf(&g.text, "FSG_BEGIN added\nNUM_STATES 4\nSTART_STATE 0\nFINAL_STATE 3\nTRANSITION 0 1 1 %s\nTRANSITION 0 1 0.5 %s\nTRANSITION 1 2 1 %s\nTRANSITION 1 2 0.5 %s\nTRANSITION 2 3 1 %s\nTRANSITION 2 3 0.5 %s\nTRANSITION 3 3 0.2 %s\nTRANSITION 1 1 0.1 %s\nTRANSITION 0 2 0.3 \nFSG_END\n", w1, nw[1], nw[0], w3, w2, nw[0], nw[1], nw[0]);
        snprintf(g.desc, sizeof(g.desc), "fsg-text with two words added at run time (%s = %s; %s = %s)", nw[0], ph[0], nw[1], ph[1]);
        vh_count("grammars_with_words_added_at_run_time", 1);
    }
    else if (vh_chance(r, 0.12)) {
        /* chains of weighted null transitions: the transcript with runs of optional words, each skipped by a likely null arc, plus
         * unlikely direct null short cuts over several of them, the TRANSITION lines in random order.  The best alignment skips a
         * run through the chain, whose product beats the short cut. */
        static const char *en_t[] = { "go", "forward", "ten", "meters" }, *fr_t[] = { "avance", "de", "dix", "mètres" };
        static const char *en_o[] = { "backward", "one", "two", "three", "left", "right", "stop", "seven" }, *fr_o[] = { "recule", "un", "deux", "trois", "quatre", "oui", "non", "sept" };
        const char **tw = lang == VD_FR ? fr_t : en_t, **ow = lang == VD_FR ? fr_o : en_o;
        struct { int from, to; double p; const char *w; } ln[64]; int nl2 = 0, st = 0, q, runs = vh_range(r, 1, 2), ord[64], opt_from[8], opt_to[8], nruns = 0;
        int pos[2]; pos[0] = (int)vh_below(r, 5); pos[1] = (int)vh_below(r, 5);
        for (q = 0; q <= 4; ++q) {
            int rr2;
            for (rr2 = 0; rr2 < runs; ++rr2) if (pos[rr2] == q && nruns < 8) {
                int len = vh_range(r, 2, 5), j2; opt_from[nruns] = st;
                for (j2 = 0; j2 < len; ++j2) { ln[nl2].from = st; ln[nl2].to = st + 1; ln[nl2].p = 1.0; ln[nl2].w = ow[vh_below(r, 8)]; ++nl2; ln[nl2].from = st; ln[nl2].to = st + 1; ln[nl2].p = VH_PICK(r, ((double[]){ 0.9, 0.9, 1.0, 0.8 })); ln[nl2].w = NULL; ++nl2; ++st; }
                opt_to[nruns++] = st;
            }
            if (q < 4) { ln[nl2].from = st; ln[nl2].to = st + 1; ln[nl2].p = 1.0; ln[nl2].w = tw[q]; ++nl2; ++st; }
        }
        for (q = 0; q < nruns; ++q) {   /* direct short cuts inside each run */
            int a2, b2, full = vh_chance(r, 0.6);   /* every short cut present: the closure has no arc to add and can only improve existing ones */
            for (a2 = opt_from[q]; a2 < opt_to[q]; ++a2) for (b2 = a2 + 2; b2 <= opt_to[q]; ++b2) if (nl2 < 60 && (full || vh_chance(r, 0.6))) { ln[nl2].from = a2; ln[nl2].to = b2; ln[nl2].p = VH_PICK(r, ((double[]){ 0.01, 0.001, 0.1, 0.01 })); ln[nl2].w = NULL; ++nl2; }
        }
        for (q = 0; q < nl2; ++q) ord[q] = q;
        for (q = nl2 - 1; q > 0; --q) { int b2 = (int)vh_below(r, (uint32_t)(q + 1)), t2 = ord[q]; ord[q] = ord[b2]; ord[b2] = t2; }
        vd_gram_free(&g); memset(&g, 0, sizeof(g)); g.kind = VG_FSG_TEXT; g.lang = lang; vh_sb_init(&g.text); vfsa_init(&g.truth, 1, 0, 0);
        vh_sb_printf(&g.text, "FSG_BEGIN chains\nNUM_STATES %d\nSTART_STATE 0\nFINAL_STATE %d\n", st + 1, st);
        for (q = 0; q < nl2; ++q) vh_sb_printf(&g.text, "TRANSITION %d %d %g %s\n", ln[ord[q]].from, ln[ord[q]].to, ln[ord[q]].p, ln[ord[q]].w ? ln[ord[q]].w : "");
        vh_sb_printf(&g.text, "FSG_END\n");
        snprintf(g.desc, sizeof(g.desc), "fsg-text: transcript with %d runs of optional words skipped by null chains and unlikely short cuts, %d lines in random order", nruns, nl2);
        vh_count("grammars_with_null_chains_and_short_cuts", 1);
    }
    vd_audio_make(r, lang, vh_chance(r, 0.1) ? 1 : 0, vh_chance(r, 0.5) ? vh_range(r, 800, 20000) : 64000, &a);
    vd_pattern_random(r, &p, 1); p.partial_prob = 0;
    vd_search_desc(&sp, sdesc, sizeof(sdesc)); vd_pattern_desc(&p, pdesc, sizeof(pdesc));
    vh_desc("%s cmn=%s cionly=%d | %s | %s | audio: %s | %s\n%s", lang == VD_FR ? "fr-fr" : "en-us", cfg.cmn, cfg.cionly, sdesc, g.desc, a.desc, pdesc, g.text.s);
    if (vd_gram_load(d, &g) != 0) { vh_count("grammar_load_failed", 1); vh_inconc("the decoder refused the generated grammar (%s)", g.desc); goto out; }
    memset(&tap, 0, sizeof(tap)); ssv_senscr_tap_user = &tap; ssv_senscr_tap = tap_cb;
    vd_run(d, &a, r, &p, NULL, NULL, &info);
    ssv_senscr_tap = NULL;
    if (info.failed) { vh_inconc("utterance calls failed (judged by C03)"); goto out; }
    vh_ctx("decoder_hyp");
    hyp = decoder_hyp(d, &score); have_score = (score != 0x7fffffff);
    if (hyp) { snprintf(hypbuf, sizeof(hypbuf), "%s", hyp); hyp = hypbuf; }   /* the next query frees the string */
    vd_result_get(d, &res);
    segs = (oseg *)calloc((size_t)res.nseg + 1, sizeof(oseg));
    for (k = 0; k < res.nseg; ++k) { if (!strcmp(res.seg[k].word, "(NULL)")) continue; snprintf(segs[nw].word, sizeof(segs[nw].word), "%s", res.seg[k].word); segs[nw].sf = res.seg[k].sf; segs[nw].ef = res.seg[k].ef; ef_last = res.seg[k].ef; ++nw; }
    if (res.nseg) ef_last = res.seg[res.nseg - 1].ef;
    /* frame scores of this utterance, re-computed */
    T = d->acmod->output_frame; nsen = bin_mdef_n_sen(d->acmod->mdef);
    if (T <= 0) { if (nw > 0) vh_viol("result_without_frames", "a result with %d words (score %d) is reported although no frame was searched", nw, score); vh_count("utterances_without_frames", 1); goto out; }
    vh_ctx("harness_rescoring");
    if (acmod_rewind(d->acmod) < 0) { vh_inconc("acmod_rewind failed"); goto out; }
    sen = (int16 *)malloc(sizeof(int16) * (size_t)T * (size_t)nsen);
    for (t = 0; t < T; ++t) { int fr = t; const int16 *s = acmod_score(d->acmod, &fr); if (!s) { vh_inconc("acmod_score failed at frame %d", t); goto out; } memcpy(sen + (size_t)t * (size_t)nsen, s, sizeof(int16) * (size_t)nsen); acmod_advance(d->acmod); }
    /* the oracle works on the scores the search itself used (hook H1); the post-hoc re-computation is only compared with them */
    {
        int missing = 0, differ = 0;
        for (t = 0; t < T; ++t) { if (t >= tap.nfr || !tap.have[t] || tap.nsen != nsen) { ++missing; continue; } if (memcmp(tap.s + (size_t)t * (size_t)nsen, sen + (size_t)t * (size_t)nsen, sizeof(int16) * (size_t)nsen)) ++differ; }
        if (missing) { vh_inconc("%d of %d frames were not scored through acmod_score during the utterance", missing, T); goto out; }
        if (differ) { vh_count("utterances_with_frames_not_reproduced_post_hoc", 1); vh_count("frames_not_reproduced_post_hoc", differ); } else vh_count("utterances_reproduced_post_hoc", 1);
        memcpy(sen, tap.s, sizeof(int16) * (size_t)T * (size_t)nsen);
    }
    vh_ctx("oracle");
    if (graph_build(&og, d, lang, cfg.cionly, &sp, &why) < 0) { have_graph = 1; vh_count("outside_oracle_domain", 1); vh_inconc("outside the oracle's domain: %s", why); goto out; }
    have_graph = 1;
    oracle_run(&og, sen, nsen, T, NULL, 0, &full);
    vh_count("oracle_runs", 1); vh_count("oracle_word_arcs", og.na); vh_count("oracle_null_arcs", og.nnl); vh_count("frames", T);
    if (beam_mode == 2) {
        int32 want = full.opt_final[T - 1];
        /* "beam 0" is still a finite beam of 524288 score units: the optimum must be reachable well inside it, else nothing can be concluded */
        oracle_run(&og, sen, nsen, T, NULL, 524288 - 60000, &pruned);
        if (pruned.opt_final[T - 1] != want) { vh_count("optimum_near_the_residual_beam", 1); vh_inconc("the optimal path comes within 60000 units of the residual beam (-524288) of the 'open' search"); goto out; }
        if (want <= NEG) {
            if (have_score && nw == 0) vh_count("empty_sentence_reported_where_no_alignment_exists", 1);   /* nothing to maximise over: the statement is silent; a result without words claims no alignment */
            else if (have_score) vh_viol("result_where_no_legal_alignment_exists", "no sentence of the grammar can be aligned to the %d frames, but a path with score %d (\"%s\") is reported", T, score, hyp ? hyp : "");
            else vh_count("agreed_no_alignment_exists", 1);
        } else if (!have_score) vh_viol("optimum_missed|no_result", "the best legal alignment scores %d but no result is reported (%d frames, %d word arcs)", want, T, og.na);
        else if (score < want) vh_viol("optimum_missed|lower_score", "reported path score %d, the best legal alignment scores %d (%d better) -- \"%s\", %d frames, %d word arcs, %d null arcs", score, want, want - score, hyp ? hyp : "", T, og.na, og.nnl);
        else if (score > want) vh_viol("score_not_achievable|above_optimum", "reported path score %d exceeds the best legal alignment %d by %d -- \"%s\"", score, want, score - want, hyp ? hyp : "");
        else {
            vh_count("exact_optimum_matches", 1);
            if (ef_last != T - 1) vh_viol("segmentation_does_not_reach_last_frame", "the optimum is reported but the segmentation ends at frame %d of %d", ef_last, T);
        }
    } else if (have_score && nw == 0) vh_count("empty_sentence_reported_by_pruned_search", 1);   /* no words: no alignment is claimed */
    else if (have_score) {
        int32 bound = (ef_last >= 0 && ef_last < T) ? full.opt_final[ef_last] : NEG;
        if (score > bound) vh_viol("score_above_optimum_with_pruning", "%s beams: reported score %d for a path ending at frame %d; the best legal alignment ending there scores %d", beam_mode ? "narrow" : "default", score, ef_last, bound);
        else { vh_count("pruned_scores_not_above_optimum", 1); if (score == bound) vh_count("pruned_scores_equal_to_optimum", 1); }
    } else vh_count("pruned_no_result", 1);
    /* achievability: the reported words and boundaries must admit an alignment that scores at least (open beams: exactly) what is reported */
    if (have_score && nw > 0 && ef_last >= 0 && ef_last < T) {
        oc.s = segs; oc.n = nw;
        oracle_run(&og, sen, nsen, ef_last + 1, &oc, 0, &cons);
        if (cons.opt_final[ef_last] < score) vh_viol(beam_mode == 2 ? "score_not_achievable|reported_segmentation" : "score_not_achievable|reported_segmentation_pruned", "reported score %d, but the best alignment of the reported words to their reported frames scores %d", score, cons.opt_final[ef_last]);
        else if (beam_mode == 2 && cons.opt_final[ef_last] != score) vh_viol("score_not_achievable|segmentation_beats_optimum", "the reported segmentation admits score %d > reported optimum %d", cons.opt_final[ef_last], score);
        else vh_count("segmentations_achieve_reported_score", 1);
        if (vh_replay && nw > 0) {
            int ai; for (ai = 0; ai < og.na; ++ai) { oarc *a2 = &og.a[ai]; if (a2->from == og.start && !strcmp(a2->word, segs[0].word)) { ohmm *h = &a2->root[a2->filler ? 0 : og.sil]; const uint16 *sq = og.m->sseq[h->ssid]; uint8 **tp = og.tm->tp[h->tmat]; int t2;
                vh_note("arc %d->%d %s: np=%d filler=%d lp=%d wip=%d pip=%d ssid(lc=SIL)=%d senones %d %d %d tmat %d tp: 00=%d 01=%d 02=%d 11=%d 12=%d 13=%d 22=%d 23=%d", a2->from, a2->to, a2->word, a2->np, a2->filler, a2->lp, og.wip, og.pip, h->ssid, sq[0], sq[1], sq[2], h->tmat, tp[0][0], tp[0][1], tp[0][2], tp[1][1], tp[1][2], tp[1][3], tp[2][2], tp[2][3]);
                for (t2 = 0; t2 <= segs[0].ef && t2 < T; ++t2) vh_note("  frame %d: senone costs %d %d %d", t2, sen[(size_t)t2 * nsen + sq[0]], sen[(size_t)t2 * nsen + sq[1]], sen[(size_t)t2 * nsen + sq[2]]); } }
        }
        if (vh_replay && nw > 0) {
            fsg_search_t *fs2 = (fsg_search_t *)d->search; fsg_pnode_t *pn;
            for (pn = fs2->lextree->root[og.start]; pn; pn = pn->sibling) if (pn->leaf && !strcmp(fsg_model_word_str(fs2->fsg, fsg_link_wid(pn->next.fsglink)), segs[0].word))
                vh_note("real lextree root for %s at the start state: ssid %d tmat %d logs2prob %d ci_ext %d ctxt %08x %08x (SIL=%d)", segs[0].word, hmm_nonmpx_ssid(&pn->hmm), pn->hmm.tmatid, pn->logs2prob, pn->ci_ext, pn->ctxt.bv[0], pn->ctxt.bv[1], og.sil);
        }
        if (vh_replay) { long cum = 0; for (k = 0; k < res.nseg; ++k) { cum += res.seg[k].ascr + res.seg[k].lscr; vh_note("seg %d: %-12s [%d,%d] ascr %d lscr %d  cumulative real %ld | constrained oracle best token at that frame: any-state %d final-state %d", k, res.seg[k].word, res.seg[k].sf, res.seg[k].ef, res.seg[k].ascr, res.seg[k].lscr, cum, res.seg[k].ef >= 0 ? cons.opt_any[res.seg[k].ef] : 0, res.seg[k].ef >= 0 ? cons.opt_final[res.seg[k].ef] : 0); } }
    }
    vh_nontrivial("%ld", i);
    vh_count(beam_mode == 2 ? "beams_open" : beam_mode == 1 ? "beams_narrow" : "beams_default", 1);
    vh_count(vh_path("grammar_%s", vd_gram_kind_name(g.kind)), 1);
    if (g.has_onephone) vh_count("grammars_with_one_phone_words", 1);
    if (og.nnl) vh_count("grammars_with_null_arcs", 1);
    if (cfg.cionly) vh_count("cionly_cases", 1);
    { int loops = 0, fill = 0; for (k = 0; k < og.na; ++k) { if (og.a[k].from == og.a[k].to && !og.a[k].filler) loops = 1; if (og.a[k].filler) fill = 1; } if (loops) vh_count("grammars_with_word_loops", 1); if (fill) vh_count("grammars_with_fillers", 1); else vh_count("grammars_without_fillers", 1); }
    if (i % 40 == 3) vh_sample("%s; %s; %s -> \"%s\" score %d, oracle optimum %d at the last of %d frames (%d word arcs, %d null arcs)", g.desc, a.desc, sdesc, hyp ? hyp : "(none)", have_score ? score : 0, full.opt_final[T - 1], T, og.na, og.nnl);
out:
    if (have_graph) graph_free(&og);
    oresult_free(&full); oresult_free(&cons); oresult_free(&pruned);
    free(sen); free(segs); free(tap.s); free(tap.have); ssv_senscr_tap = NULL;
    vd_result_free(&res);
    vd_audio_free(&a);
    vd_gram_free(&g);
}

static void teardown(void) { vd_drop_decoders(); }
static const vh_harness H = { "h_viterbi", ncases, setup, run, teardown, 300 };
int main(int argc, char **argv) { return vh_main(argc, argv, &H); }
