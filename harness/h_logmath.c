/* h_logmath.c -- C19: log-domain addition is accurate, commutative and monotone.
 *
 * One case = one (base, shift) configuration.  For that configuration EVERY table index d
 * in [0, table_size + 1000] is checked against a long double reference, for several
 * operand positions x, and the log/exp round trip is checked on a log-spaced sweep of p.
 *
 * Oracle (long double, independent of the library's table construction):
 *    exact(x, x-d) = x + log_b(1 + b^(-d * 2^shift)) / 2^shift      (in shifted units)
 */
#include "vh.h"
#include <math.h>
#include <limits.h>
#include <soundswallower/logmath.h>
#include <soundswallower/err.h>

static const double fixed_bases[] = { 1.00001, 1.0001, 1.0003, 1.001, 1.01, 1.1, 2.0, 10.0 };
static const int fixed_shifts[] = { 0, 1, 2, 4, 8 };
#define NFIXED (8 * 5)

static long ncases(int tier, long req)
{
    if (req >= 0) return req;
    return tier ? NFIXED + 8000 : NFIXED + 40;
}

static void setup(void) { err_set_loglevel(ERR_FATAL); }

/* Bases whose log_b(2)/2^shift lands next to a table-width boundary (255.5, 65535.5) are
 * where a width chosen "one step too small" truncates entries. */
static double boundary_base(vh_rng *r, int shift)
{
    double target = vh_chance(r, 0.5) ? 255.5 : 65535.5;
    double L = (target + (vh_unit(r) - 0.5) * 3.0) * (double)(1 << shift); /* log_b(2) */
    return exp(log(2.0) / L);
}

static void check_config(double base, int shift, vh_rng *r)
{
    logmath_t *lm;
    uint32 size = 0, width = 0, tshift = 0;
    long double lnb = logl((long double)base);
    long double unit = (long double)(1 << shift);
    int zero, log2r;
    long d, nd, nchk = 0, nasym = 0;
    long double maxerr = 0;
    int xs[8];
    int k, nx;

    vh_ctx("logmath_init");
    lm = logmath_init(base, shift, 1);
    if (lm == NULL) {
        vh_viol("init_failed", "logmath_init(%.17g,%d,1) returned NULL", base, shift);
        return;
    }
    logmath_get_table_shape(lm, &size, &width, &tshift);
    zero = logmath_get_zero(lm);
    log2r = (int)floorl(logl(2.0L) / lnb / unit + 0.5L);
    vh_desc("base=%.17g shift=%d table_size=%u width=%u zero=%d log2=%d", base, shift, size, width, zero, log2r);
    if ((int)tshift != shift)
        vh_viol("shape", "table shift %u != %d", tshift, shift);

    nd = (long)size + 1000;
    vh_ctx("logmath_add");
    for (d = 0; d <= nd; ++d) {
        long double dd = (long double)d * unit; /* difference in base units */
        long double corr = log1pl(expl(-dd * lnb)) / lnb / unit; /* shifted units */
        nx = 0;
        xs[nx++] = 0;
        xs[nx++] = -1;
        xs[nx++] = (int)-d;
        xs[nx++] = -1000000;
        xs[nx++] = zero + 1 + (int)d;
        xs[nx++] = -(int)vh_below(r, 50000000);
        if (d % 97 == 0) xs[nx++] = 1000 + (int)vh_below(r, 100000); /* positive logs (densities) */
        for (k = 0; k < nx; ++k) {
            int x = xs[k], y = x - (int)d;
            int a, b;
            long double err;
            if (y <= zero || x <= zero) continue;
            a = logmath_add(lm, x, y);
            b = logmath_add(lm, y, x);
            ++nchk;
            if (a != b) {
                ++nasym;
                vh_viol("asymmetric", "add(%d,%d)=%d but add(%d,%d)=%d (base %.17g shift %d)", x, y, a, y, x, b, base, shift);
            }
            if (a < x)
                vh_viol("below_max", "add(%d,%d)=%d is smaller than the larger argument (base %.17g shift %d d=%ld)", x, y, a, base, shift, d);
            if (a > x + log2r)
                vh_viol("above_log2", "add(%d,%d)=%d exceeds larger argument by more than log2=%d (base %.17g shift %d)", x, y, a, log2r, base, shift);
            err = fabsl(((long double)a - (long double)x) - corr);
            if (err > maxerr) maxerr = err;
            if (err > 0.5L + 1e-6L)
                vh_viol("inaccurate", "add(%d,%d)=%d, exact %.6Lf, error %.6Lf units > 0.5 (base %.17g shift %d d=%ld width %u)",
                        x, y, a, (long double)x + corr, err, base, shift, d, width);
        }
    }
    /* identity of log-zero, also for arguments below zero */
    vh_ctx("logmath_add:zero");
    {
        int ys[] = { 0, -1, -12345, zero + 1, zero, zero - 1, zero - 1000, INT_MIN / 2, 77 };
        int zs[] = { zero, zero - 1, zero - 100000 };
        unsigned i, j;
        for (i = 0; i < sizeof(ys) / sizeof(ys[0]); ++i)
            for (j = 0; j < sizeof(zs) / sizeof(zs[0]); ++j) {
                int y = ys[i], z = zs[j];
                int a = logmath_add(lm, z, y), b = logmath_add(lm, y, z);
                ++nchk;
                if (y > zero) {
                    if (a != y || b != y)
                        vh_viol("zero_identity", "add(zero%+d,%d)=%d, add(%d,zero%+d)=%d, expected %d", z - zero, y, a, y, z - zero, b, y);
                } else {
                    /* both are "zero": result must still be a zero (<= zero) and symmetric up to that */
                    if (a > zero || b > zero)
                        vh_viol("zero_identity", "add of two log-zeros (%d,%d) gave %d/%d > zero", z, y, a, b);
                }
            }
    }
    /* round trip p -> log -> exp */
    vh_ctx("logmath_log/exp");
    {
        long n = vh_tier ? 100000 : 20000, i, nrt = 0;
        long double maxloss = 0;
        for (i = 0; i < n; ++i) {
            double e10, p, q;
            int l;
            long double ratio, bound;
            if (i % 10 == 9) {
                /* exact powers of the base, and values just beside them */
                int ex = -(int)vh_below(r, 200000) * (1 << shift);
                p = pow(base, (double)ex);
                if (i % 20 == 19) p = nextafter(p, 0.0);
                if (i % 40 == 29) p = nextafter(p, 2.0);
            } else {
                e10 = -300.0 + 600.0 * vh_unit(r);
                if (i % 3 == 0) e10 = -12.0 * vh_unit(r); /* the range probabilities actually live in */
                p = pow(10.0, e10);
            }
            if (!(p > 1e-300 && p < 1e300)) continue;
            if (fabs(log(p) / log(base)) > 2.0e9) continue; /* outside int range: not a log-prob */
            l = logmath_log(lm, p);
            if (l <= zero) continue; /* flushed to log-zero: documented */
            q = logmath_exp(lm, l);
            ++nrt;
            if (q > p * (1.0 + 1e-11))
                vh_viol("roundtrip_increase", "exp(log(p)) = %.17g > p = %.17g (log=%d, base %.17g shift %d)", q, p, l, base, shift);
            if (q > 1e-290) { /* below that q is denormal and the quotient is meaningless */
                ratio = (long double)p / (long double)q;
                bound = powl((long double)base, unit) * (1.0L + 1e-9L);
                if (logl(ratio) / lnb / unit > maxloss) maxloss = logl(ratio) / lnb / unit;
                if (ratio > bound)
                    vh_viol("roundtrip_loss", "p/exp(log(p)) = %.12Lf > one unit %.12Lf (p=%.17g log=%d base %.17g shift %d)", ratio, bound, p, l, base, shift);
            }
        }
        vh_count("roundtrip_checks", nrt);
        vh_max("max_roundtrip_loss_milliunits", (long)(maxloss * 1000));
    }
    vh_count("add_checks", nchk);
    vh_count("table_indices_enumerated", nd + 1);
    vh_count(width == 1 ? "tables_width1" : width == 2 ? "tables_width2" : "tables_width4", 1);
    vh_max("max_add_error_milliunits", (long)(maxerr * 1000));
    vh_nontrivial("b%.17g/s%d", base, shift);
    vh_sample("base=%.10g shift=%d: table_size=%u width=%u, %ld add checks over every d in [0,%ld], max |error| %.4Lf units, %ld asymmetries",
              base, shift, size, width, nchk, nd, maxerr, nasym);
    logmath_free(lm);
}

static void run(long i, vh_rng *r)
{
    double base;
    int shift;
    if (i < NFIXED) {
        base = fixed_bases[i / 5];
        shift = fixed_shifts[i % 5];
    } else {
        shift = vh_range(r, 0, 10);
        switch (vh_below(r, 3)) {
        case 0: base = boundary_base(r, shift); break;
        case 1: base = 1.0 + pow(10.0, -4.5 + 4.5 * vh_unit(r)); break; /* 1.00003 .. 2 */
        default: base = exp(log(2.0) / (16.0 + vh_unit(r) * 70000.0)); break;
        }
        if (base < 1.00001) base = 1.00001;
        /* keep the table below ~4M entries so a case stays around a second */
        if (shift == 0 && base < 1.00002) shift = 1;
    }
    check_config(base, shift, r);
}

static const vh_harness H = { "h_logmath", ncases, setup, run, NULL, 300 };
int main(int argc, char **argv) { return vh_main(argc, argv, &H); }
