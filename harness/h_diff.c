/* h_diff.c -- differential monitors.
 * VH_SOURCES: vfsa.c vdec.c
 *
 *   --x-monitor C07   results do not depend on chunking / buffering mode / partial queries:
 *                     one audio, one decoder, channel-normalisation state set to the same value
 *                     before every run; reference = 2048-sample int16 chunks; every variant
 *                     calling pattern must give the byte-identical result record (hypothesis,
 *                     score, segmentation with scores, three-level alignment, frames searched).
 *   --x-monitor C08   utterances and decoder instances are isolated, decoding is deterministic:
 *                     the same target utterance on a fresh decoder, after a random history on a
 *                     long-lived decoder, and twice in a row must give identical records
 *                     (+ lattice, + exported CMN state); two decoders whose calls are interleaved
 *                     must each give their solo result.
 */
#include "vh.h"
#include "vfsa.h"
#include "vdec.h"
#include <math.h>
#include <soundswallower/lattice.h>
#include <soundswallower/alignment.h>
#include <soundswallower/err.h>
#include <soundswallower/fsg_search.h>
#include <soundswallower/fsg_history.h>

static int MON = 7;
static long ncases(int tier, long req) { if (req >= 0) return req; return tier ? 4000 : 200; }
static void setup(void)
{
    err_set_loglevel(ERR_FATAL);
    MON = !strcmp(vh_arg("monitor", "C07"), "C08") ? 8 : 7;
    vd_init();
}

/* ---------------- full result record ---------------- */
typedef struct aent { int lvl, st, du, sc; char name[24]; } aent;
typedef struct record {
    aent *ae; int nae;
    vd_result res; uint64_t align_hash; int has_align, align_words, align_phones, align_states;
    uint64_t lat_hash; int lat_nodes, lat_links, has_lat;
    long frames_searched; char cmn_after[400];
    long n_hmm_eval, n_sen_eval;   /* the search's own work counters for the utterance: a deterministic function of the utterance */
    int hist_per_frame[1200]; int hist_nframes;   /* word exits recorded per frame */
} record;

static aent *g_ae; static int g_nae, g_capae;
static uint64_t align_hash_of(alignment_t *al, int *nw, int *np, int *ns)
{
    uint64_t h = VH_H0; alignment_iter_t *it; int lvl;
    *nw = *np = *ns = 0; g_ae = NULL; g_nae = g_capae = 0;
    for (lvl = 0; lvl < 3; ++lvl) {
        for (it = lvl == 0 ? alignment_words(al) : lvl == 1 ? alignment_phones(al) : alignment_states(al); it; it = alignment_iter_next(it)) {
            int st, du, sc = alignment_iter_seg(it, &st, &du); const char *nm = alignment_iter_name(it);
            h = vh_hash(&lvl, sizeof(int), h); h = vh_hash(&st, sizeof(int), h); h = vh_hash(&du, sizeof(int), h); h = vh_hash(&sc, sizeof(int), h);
            if (nm) h = vh_hash(nm, strlen(nm), h);
            if (g_nae == g_capae) { g_capae = g_capae ? g_capae * 2 : 128; g_ae = (aent *)realloc(g_ae, sizeof(aent) * (size_t)g_capae); }
            g_ae[g_nae].lvl = lvl; g_ae[g_nae].st = st; g_ae[g_nae].du = du; g_ae[g_nae].sc = sc; snprintf(g_ae[g_nae].name, sizeof(g_ae[g_nae].name), "%s", nm ? nm : "?"); ++g_nae;
            if (lvl == 0) ++*nw; else if (lvl == 1) ++*np; else ++*ns;
        }
    }
    return h;
}
static void lattice_hash_of(lattice_t *dag, record *rec)
{
    latnode_iter_t *ni; uint64_t acc = 0;
    rec->has_lat = 1;
    for (ni = ps_latnode_iter(dag); ni; ni = ps_latnode_iter_next(ni)) {
        latnode_t *nd = ps_latnode_iter_node(ni); int16 fef, lef; int sf = latnode_times(nd, &fef, &lef); const char *w = ps_latnode_word(dag, nd); latlink_iter_t *li; uint64_t h = VH_H0;
        h = vh_hash(&sf, sizeof(int), h); h = vh_hash(&fef, sizeof(fef), h); h = vh_hash(&lef, sizeof(lef), h); if (w) h = vh_hash(w, strlen(w), h);
        ++rec->lat_nodes;
        vh_note("  lattice node %s sf=%d fef=%d lef=%d", w ? w : "?", sf, fef, lef);
        for (li = ps_latnode_exits(nd); li; li = ps_latlink_iter_next(li)) {
            latlink_t *lk = ps_latlink_iter_link(li); int16 lsf; int ef = latlink_times(lk, &lsf); int32 ascr; latnode_t *dst = ps_latlink_nodes(lk, NULL); int dsf = latnode_times(dst, NULL, NULL); uint64_t lh = h;
            ps_latlink_prob(dag, lk, &ascr);
            vh_note("      link ef=%d ascr=%d -> sf %d", ef, ascr, dsf);
            lh = vh_hash(&ef, sizeof(int), lh); lh = vh_hash(&ascr, sizeof(ascr), lh); lh = vh_hash(&dsf, sizeof(int), lh);
            acc += lh * 0x9E3779B97F4A7C15ULL;   /* order-independent */
            ++rec->lat_links;
        }
        acc += h;
    }
    rec->lat_hash = acc;
}
static void record_get(decoder_t *d, record *rec, const vd_runinfo *info, int want_lattice)
{
    alignment_t *al;
    memset(rec, 0, sizeof(*rec));
    vd_result_get(d, &rec->res);
    rec->frames_searched = info->sum_ret + (info->nframes_after_end - info->nframes_before_end);
    { fsg_history_t *hh = ((fsg_search_t *)d->search)->history; int q, ne = fsg_history_n_entries(hh); for (q = 1; q < ne; ++q) { fsg_hist_entry_t *he = fsg_history_entry_get(hh, q); int fr = fsg_hist_entry_frame(he); if (fr >= 0 && fr < 1200) { ++rec->hist_per_frame[fr]; if (fr >= rec->hist_nframes) rec->hist_nframes = fr + 1; } } }
    rec->n_hmm_eval = ((fsg_search_t *)d->search)->n_hmm_eval; rec->n_sen_eval = ((fsg_search_t *)d->search)->n_sen_eval;
    vh_ctx("decoder_alignment");
    al = decoder_alignment(d);
    if (al) { rec->has_align = 1; rec->align_hash = align_hash_of(al, &rec->align_words, &rec->align_phones, &rec->align_states); rec->ae = g_ae; rec->nae = g_nae; }
    if (want_lattice && fsg_history_n_entries(((fsg_search_t *)d->search)->history) <= 20000) {
        lattice_t *dag; vh_ctx("decoder_lattice"); dag = decoder_lattice(d); if (dag) lattice_hash_of(dag, rec);
    }
    { const char *c = decoder_get_cmn(d, 0); snprintf(rec->cmn_after, sizeof(rec->cmn_after), "%s", c ? c : "(null)"); }
}
static void record_free(record *r) { vd_result_free(&r->res); free(r->ae); r->ae = NULL; }
static int record_equal(const record *a, const record *b, int with_cmn, char *why, size_t n)
{
    if (!vd_result_equal(&a->res, &b->res, why, n)) return 0;
    if (a->frames_searched != b->frames_searched) { snprintf(why, n, "frames searched %ld vs %ld", a->frames_searched, b->frames_searched); return 0; }
    if (a->n_hmm_eval != b->n_hmm_eval || a->n_sen_eval != b->n_sen_eval || memcmp(a->hist_per_frame, b->hist_per_frame, sizeof(a->hist_per_frame))) {
        int q, fd = -1; for (q = 0; q < 1200; ++q) if (a->hist_per_frame[q] != b->hist_per_frame[q]) { fd = q; break; }
        snprintf(why, n, "same result, but the search evaluated %ld HMMs / %ld senones vs %ld / %ld for the same utterance; first frame with a different number of word exits: %d (%d vs %d)", a->n_hmm_eval, a->n_sen_eval, b->n_hmm_eval, b->n_sen_eval, fd, fd >= 0 ? a->hist_per_frame[fd] : 0, fd >= 0 ? b->hist_per_frame[fd] : 0); return 0; }
    if (a->has_align != b->has_align) { snprintf(why, n, "alignment %s vs %s", a->has_align ? "present" : "NULL", b->has_align ? "present" : "NULL"); return 0; }
    if (a->has_align && a->nae == b->nae && a->align_hash != b->align_hash) {
        int q; static const char *ln[] = { "word", "phone", "state" };
        for (q = 0; q < a->nae; ++q) if (memcmp(&a->ae[q], &b->ae[q], sizeof(aent))) break;
        if (q < a->nae) { snprintf(why, n, "alignment %s entry %d: %s start %d duration %d score %d  vs  %s start %d duration %d score %d", ln[a->ae[q].lvl], q, a->ae[q].name, a->ae[q].st, a->ae[q].du, a->ae[q].sc, b->ae[q].name, b->ae[q].st, b->ae[q].du, b->ae[q].sc); return 0; }
    }
    if (a->has_align && (a->align_hash != b->align_hash || a->align_states != b->align_states)) { snprintf(why, n, "alignment differs (%d/%d/%d vs %d/%d/%d words/phones/states, hash %016llx vs %016llx)", a->align_words, a->align_phones, a->align_states, b->align_words, b->align_phones, b->align_states, (unsigned long long)a->align_hash, (unsigned long long)b->align_hash); return 0; }
    if (with_cmn && strcmp(a->cmn_after, b->cmn_after)) { snprintf(why, n, "channel-normalisation state after the utterance: %.250s vs %.250s", a->cmn_after, b->cmn_after); return 0; }
    /* last, so that a return value of -1 means: everything else is identical, only the lattice differs */
    if (a->has_lat != b->has_lat || a->lat_nodes != b->lat_nodes || a->lat_links != b->lat_links || a->lat_hash != b->lat_hash) { snprintf(why, n, "only the lattice differs (%d nodes %d links vs %d nodes %d links); hypothesis, scores, segmentation, alignment and CMN state are identical", a->lat_nodes, a->lat_links, b->lat_nodes, b->lat_links); return -1; }
    return 1;
}

/* partial queries of every kind: they must not influence the result */
static void poke(decoder_t *d, void *user, long fed, long frames)
{
    vh_rng *r = (vh_rng *)user; int32 sc; seg_iter_t *it;
    (void)fed; (void)frames;
    int kind = (int)vh_below(r, 6);
    { const char *m = getenv("VH_POKE_MASK"); if (m && !strchr(m, '0' + kind)) return; }
    switch (kind) {
    case 0: vh_ctx("decoder_hyp"); decoder_hyp(d, &sc); break;
    case 1: vh_ctx("decoder_seg_iter"); for (it = decoder_seg_iter(d); it; it = seg_iter_next(it)) { if (vh_chance(r, 0.1)) { seg_iter_free(it); break; } } break;
    case 2: if (fsg_history_n_entries(((fsg_search_t *)d->search)->history) <= 8000) { vh_ctx("decoder_lattice"); decoder_lattice(d); } break;
    case 3: vh_ctx("decoder_alignment"); decoder_alignment(d); break;
    case 4: vh_ctx("decoder_result_json"); decoder_result_json(d, 0.0, (int)vh_below(r, 3)); break;
    default: vh_ctx("decoder_get_cmn"); decoder_get_cmn(d, 0); break;
    }
    vh_count("partial_queries", 1);
}

static const char *CMN0 = "40,3,-1";

/* ============================= C07 ============================= */
static void pattern_class(const vd_pattern *p, char *buf, size_t n)
{
    static const char *st[] = { "chunks2048", "one_call", "random_chunks", "tiny_chunks", "first_chunk_lt_1_frame", "huge_chunks", "short_then_rest" };
    snprintf(buf, n, "%s%s%s%s", p->full_utt ? "full_utt" : st[p->style], p->use_float ? "+float32" : "", p->no_search_chunks ? (p->no_search_chunks < 0 ? "+all_buffered" : "+buffered_prefix") : p->no_search_prob > 0 ? "+interleaved_buffering" : "", p->partial_prob > 0 ? "+partial_queries" : "");
}
static void run_c07(long i, vh_rng *r)
{
    vd_cfg cfg; vd_search sp; vd_gram g; vd_audio a; decoder_t *d; vd_pattern refp, p; vd_runinfo info; record ref, got; char sdesc[300], pdesc[200], why[600], pcls[120]; int have_first = 0;
    int lang = vh_chance(r, 0.12) ? VD_FR : VD_EN, v, nvar = vh_tier ? 8 : 6, fresh = 0;
    vd_cfg_default(&cfg, lang);
    cfg.cmn = VH_PICK(r, ((const char *[]){ "live", "live", "live", "none", "batch" }));
    if (lang == VD_EN && vh_chance(r, 0.08)) cfg.samprate = 8000;
    /* a quarter of the cases on a decoder that has never seen audio (internal buffers at their initial size) */
    fresh = vh_chance(r, 0.25);
    d = fresh ? vd_decoder_fresh(&cfg) : vd_decoder(&cfg);
    if (!d) { vh_inconc("decoder_init failed"); return; }
    if (fresh) vh_count("cases_on_a_fresh_decoder", 1);
    vd_search_random(r, &sp, vh_chance(r, 0.15) ? 2 : (int)vh_below(r, 2));
    vd_search_apply(d, &sp);
    vd_gram_random(r, lang, -1, 0.7, &g);
    /* the live-CMN window moves after 300 frames (CMN_WIN_HWM - CMN_WIN) from a reset: the statement is about shorter audio
     * (70% of the cases); longer audio is exercised too since the window now moves frame by frame */
    vd_audio_make(r, lang, vh_chance(r, 0.12) ? 1 : 0, sp.beam_mode == 2 ? 12000 : (vh_chance(r, 0.7) ? 46000 : 0), &a);
    if (cfg.samprate == 8000) { long j; for (j = 0; j < a.n / 2; ++j) a.s[j] = (int16_t)(((long)a.s[2 * j] + a.s[2 * j + 1]) / 2); a.n /= 2; }
    vd_search_desc(&sp, sdesc, sizeof(sdesc));
    vh_desc("%s %dHz cmn=%s | %s | %s | audio: %s\n%s", lang == VD_FR ? "fr-fr" : "en-us", cfg.samprate, cfg.cmn, sdesc, g.desc, a.desc, g.text.s);
    if (vh_dump_dir) { vh_write_file(vh_path("%s/audio.raw", vh_dump_dir), a.s, (size_t)a.n * 2); vh_write_file(vh_path("%s/grammar.txt", vh_dump_dir), g.text.s, g.text.n); }
    if (vd_gram_load(d, &g) != 0) { vh_inconc("grammar refused"); goto out; }
    if (fresh) {
        /* frame-sized chunks before anything else has sized the internal buffers; compared with the reference below */
        memset(&p, 0, sizeof(p)); p.style = 3;
        if (a.n <= 60000) { decoder_set_cmn(d, CMN0); if (vd_run(d, &a, r, &p, NULL, NULL, &info) == 0) { record_get(d, &got, &info, 0); have_first = 1; } }
    }
    /* reference: 2048-sample int16 chunks, no partial queries */
    memset(&refp, 0, sizeof(refp)); refp.style = 0;
    decoder_set_cmn(d, CMN0);
    if (vd_run(d, &a, r, &refp, NULL, NULL, &info) != 0) { vh_viol("utterance_call_failed", "reference run failed"); goto out; }
    record_get(d, &ref, &info, 0);
    if (have_first) {
        if (record_equal(&ref, &got, 0, why, sizeof(why)) != 1) vh_viol("result_depends_on_calling_pattern|tiny_chunks_on_fresh_decoder", "frame-sized chunks as the very first utterance of a decoder vs 2048-sample chunks: %s", why);
        vh_count("variants_compared", 1); record_free(&got);
    }
    for (v = 0; v < nvar; ++v) {
        vh_rng pr;
        vd_pattern_random(r, &p, strcmp(cfg.cmn, "batch") != 0);
        if (v == 0) { p.full_utt = 0; p.style = 4; }                      /* always: first chunk shorter than one frame */
        if (v == 1) { p.full_utt = 0; p.style = 2; p.no_search_chunks = vh_range(r, 1, 5); }
        if (v == 2) { p.full_utt = 0; p.style = VH_PICK(r, ((int[]){ 0, 2, 2 })); p.no_search_chunks = 0; p.no_search_prob = 0.5; if (p.partial_prob < 0.4) p.partial_prob = 0.6; }   /* searched and buffered pieces interleaved, with queries in between */
        if (p.style == 3 && a.n > 30000) p.style = 2;
        vd_pattern_desc(&p, pdesc, sizeof(pdesc)); pattern_class(&p, pcls, sizeof(pcls));
        vh_rng_init(&pr, vh_seed + 77, (uint64_t)(i * 16 + v));
        vh_note("  variant %d: %s", v, pdesc);
        decoder_set_cmn(d, CMN0);
        if (vd_run(d, &a, r, &p, poke, &pr, &info) != 0) { vh_viol(vh_path("utterance_call_failed|%s", pcls), "variant run failed (%s)", pdesc); continue; }
        record_get(d, &got, &info, 0);
        if (record_equal(&ref, &got, 0, why, sizeof(why)) != 1)
            vh_viol(vh_path("result_depends_on_calling_pattern|%s", pcls), "2048-sample chunks vs [%s]: %s", pdesc, why);
        vh_count("variants_compared", 1);
        vh_count(vh_path("variant_%s", p.full_utt ? "full_utt" : p.style == 4 ? "first_chunk_lt_1_frame" : p.style == 3 ? "tiny_chunks" : p.style == 5 ? "huge_chunks" : p.style == 1 ? "one_call" : "other_chunks"), 1);
        if (p.no_search_chunks) vh_count("variant_buffered", 1);
        if (p.no_search_prob > 0) vh_count("variant_interleaved_buffering", 1);
        if (p.use_float) vh_count("variant_float32", 1);
        if (i % 25 == 3 && v == 2) vh_sample("%s; audio %s; reference \"%s\" score %d, %d segments, alignment %d states; variant [%s] identical", g.desc, a.desc, ref.res.has_hyp ? ref.res.hyp : "(none)", ref.res.score, ref.res.nseg, ref.align_states, pdesc);
        record_free(&got);
    }
    if (ref.res.nseg > 0) vh_nontrivial("%016llx", (unsigned long long)(vd_result_hash(&ref.res) ^ vh_hash(g.text.s, g.text.n, VH_H0)));
    if (ref.has_align) vh_count("references_with_alignment", 1);
    record_free(&ref);
out:
    if (fresh && d) decoder_free(d);
    vd_audio_free(&a); vd_gram_free(&g);
}

/* ============================= C08 ============================= */
typedef struct target { vd_cfg cfg; vd_search sp; vd_gram g; vd_audio a; vd_pattern p; uint64_t pseed; int reset_cmn; int dead_air; } target;

static int g_no_reload;   /* the target's grammar is already active (same search object as the history utterances) */
static int run_target(decoder_t *d, target *t, record *rec, int want_lattice)
{
    vh_rng pr, qr; vd_runinfo info;
    if (!g_no_reload) {
        vd_search_apply(d, &t->sp);
        if (vd_gram_load(d, &t->g) != 0) return -2;
    }
    if (t->reset_cmn) decoder_set_cmn(d, CMN0);
    vh_rng_init(&pr, t->pseed, 1); vh_rng_init(&qr, t->pseed, 2);
    { const char *c0 = decoder_get_cmn(d, 0); cmn_t *cm = d->acmod->fcb->cmn_struct; vh_note("  before target: cmn repr %s nframe %d sum0 %g", c0 ? c0 : "(null)", cm ? cm->nframe : -1, cm ? (double)cm->sum[0] : 0.0); }
    if (vd_run(d, &t->a, &pr, &t->p, t->p.partial_prob > 0 ? poke : NULL, &qr, &info) != 0) return -1;
    record_get(d, rec, &info, want_lattice);
    return 0;
}
static int g_force_dead_air;
static void make_target(vh_rng *r, target *t, int lang)
{
    memset(t, 0, sizeof(*t));
    vd_cfg_default(&t->cfg, lang);
    t->cfg.cmn = VH_PICK(r, ((const char *[]){ "live", "live", "batch", "none" }));
    vd_search_random(r, &t->sp, vh_chance(r, 0.1) ? 2 : (int)vh_below(r, 2));
    if (t->sp.beam_mode != 2 && vh_chance(r, 0.3)) t->sp.maxhmmpf = VH_PICK(r, ((int[]){ 10, 30, 60, 100, 300 }));   /* adaptive beam narrowing kicks in */
    vd_gram_random(r, lang, -1, 0.7, &t->g);
    vd_audio_make(r, lang, vh_chance(r, 0.1) ? 1 : 0, t->sp.beam_mode == 2 ? 12000 : 0, &t->a);
    vd_pattern_random(r, &t->p, 1);
    if (t->p.style == 3 && t->a.n > 30000) t->p.style = 2;
    t->pseed = vh_next(r);
    if (g_force_dead_air || vh_chance(r, 0.04)) {
        /* dead air in full-utterance batch mode: every frame counts as "zero energy", so the batch mean is estimated from nothing;
         * whatever the estimator falls back to must not be the previous utterance's state.  The grammar accepts the empty sentence,
         * so that silence yields a scored result. */
        long n = VH_PICK(r, ((long[]){ 4000, 16000, 30000 })), j; int amp = (int)vh_below(r, 3), tries;
        t->cfg.cmn = "batch"; memset(&t->p, 0, sizeof(t->p)); t->p.full_utt = 1; t->p.use_float = vh_chance(r, 0.3);
        vd_audio_free(&t->a); memset(&t->a, 0, sizeof(t->a)); t->a.s = (int16_t *)calloc((size_t)n + 1, sizeof(int16_t)); t->a.n = n; t->a.samprate = 16000;
        for (j = 0; j < n; ++j) t->a.s[j] = (int16_t)(amp ? vh_range(r, -amp, amp) : 0);
        snprintf(t->a.desc, sizeof(t->a.desc), "dead air (+-%d LSB), %ld samples", amp, n);
        for (tries = 0; tries < 40 && !t->g.accepts_empty; ++tries) { vd_gram_free(&t->g); vd_gram_random(r, lang, vh_chance(r, 0.5) ? VG_JSGF_SLOTS : VG_FSG_TEXT, 0.3, &t->g); }
        if (!t->g.accepts_empty) {   /* a fixed grammar of optional words */
            const char *w1 = lang == VD_FR ? "avance" : "go", *w2 = lang == VD_FR ? "de" : "forward"; int l1, l2;
            vd_gram_free(&t->g); memset(&t->g, 0, sizeof(t->g)); t->g.kind = VG_JSGF_SLOTS; t->g.lang = lang; vh_sb_init(&t->g.text);
            vh_sb_printf(&t->g.text, "#JSGF V1.0;\ngrammar opt;\npublic <top> = [ %s ] [ %s ];\n", w1, w2);
            vfsa_init(&t->g.truth, 3, 0, 2); l1 = vfsa_label(&t->g.truth, w1); l2 = vfsa_label(&t->g.truth, w2);
            vfsa_add(&t->g.truth, 0, 1, l1, 0); vfsa_add(&t->g.truth, 0, 1, VF_EPS, 0); vfsa_add(&t->g.truth, 1, 2, l2, 0); vfsa_add(&t->g.truth, 1, 2, VF_EPS, 0);
            snprintf(t->g.desc, sizeof(t->g.desc), "JSGF of two optional words"); t->g.accepts_empty = 1;
        }
        t->dead_air = 1;
        vh_count("dead_air_batch_targets", 1);
    }
    /* in full-utterance batch mode no reset of the normalisation state is needed */
    t->reset_cmn = !(t->p.full_utt && !strcmp(t->cfg.cmn, "batch"));
}
static void free_target(target *t) { vd_audio_free(&t->a); vd_gram_free(&t->g); }

/* a random earlier utterance on the long-lived decoder */
static void history_utterance(decoder_t *d, vh_rng *r, int lang, char *hdesc, size_t hn)
{
    vd_search sp; vd_gram g; vd_audio a; vd_pattern p; vd_runinfo info; vh_rng qr; int k = (int)vh_below(r, 10);
    vd_search_random(r, &sp, (int)vh_below(r, 2)); vd_search_apply(d, &sp);
    vd_gram_random(r, lang, -1, 0.5, &g);
    vd_audio_make(r, lang, k < 3 ? 1 : 0, 40000, &a);
    if (k == 9) a.n = 0;   /* zero-frame utterance */
    vd_pattern_random(r, &p, 1);
    if (p.style == 3 && a.n > 20000) p.style = 2;
    vh_rng_init(&qr, vh_next(r), 3);
    if (vd_gram_load(d, &g) == 0) {
        vd_run(d, &a, r, &p, poke, &qr, &info);
        if (vh_chance(r, 0.5)) { int32 sc; decoder_hyp(d, &sc); }
        if (vh_chance(r, 0.3)) decoder_alignment(d);
    }
    if (vh_chance(r, 0.2)) { vh_ctx("decoder_add_word"); decoder_add_word(d, vh_path("xyzzy%u", (unsigned)vh_below(r, 100000)), lang == VD_FR ? "a v an s" : "HH AH L OW", vh_chance(r, 0.5)); }
    { char pd[160]; vd_pattern_desc(&p, pd, sizeof(pd)); snprintf(hdesc + strlen(hdesc), hn - strlen(hdesc), " {%s; %s; %s}", g.desc, a.desc, pd); }
    vd_audio_free(&a); vd_gram_free(&g);
}

static decoder_t *longlived[2]; static vd_cfg longcfg[2]; static int longuses[2];

static void run_c08(long i, vh_rng *r)
{
    int lang = vh_chance(r, 0.12) ? VD_FR : VD_EN, nh, k, rc, want_lat; target t; record fresh, after, again; decoder_t *df, *dl; char sdesc[300], pdesc[200], why[600], hdesc[1500] = "";
    int slot = lang, same_search = 0;
    g_force_dead_air = (i % 6 == 1); make_target(r, &t, lang); g_force_dead_air = 0;
    want_lat = t.sp.beam_mode != 2;
    vd_search_desc(&t.sp, sdesc, sizeof(sdesc)); vd_pattern_desc(&t.p, pdesc, sizeof(pdesc));
    /* (a) fresh decoder */
    df = vd_decoder_fresh(&t.cfg);
    if (!df) { vh_inconc("decoder_init failed"); free_target(&t); return; }
    rc = run_target(df, &t, &fresh, want_lat);
    if (rc != 0) { vh_inconc(rc == -2 ? "grammar refused" : "target run failed on the fresh decoder"); decoder_free(df); free_target(&t); return; }
    /* (b) long-lived decoder with the same configuration, after a random history */
    if (longlived[slot] && (strcmp(longcfg[slot].cmn, t.cfg.cmn) || longuses[slot] > 40)) { decoder_free(longlived[slot]); longlived[slot] = NULL; }
    if (!longlived[slot]) { longlived[slot] = vd_decoder_fresh(&t.cfg); longcfg[slot] = t.cfg; longuses[slot] = 0; }
    dl = longlived[slot]; ++longuses[slot];
    nh = vh_range(r, 0, 3);
    same_search = vh_chance(r, 0.4);
    if (t.dead_air) { if (nh == 0) nh = 1; same_search = 0; }    /* the fallback of the batch estimator must not be what earlier speech left behind */
    if (!same_search) for (k = 0; k < nh; ++k) history_utterance(dl, r, lang, hdesc, sizeof(hdesc));
    else {
        /* the earlier utterances use the target's own grammar and search object (no reload in between):
         * per-search state such as adaptive beams must not leak into the target either */
        vd_search_apply(dl, &t.sp);
        if (vd_gram_load(dl, &t.g) != 0) same_search = 0;
        else {
            if (nh == 0) nh = 1;
            for (k = 0; k < nh; ++k) {
                vd_audio ha; vd_pattern hp; vd_runinfo hi; vh_rng qr;
                int same_len = vh_chance(r, 0.5) && t.a.n > 0;
                vd_audio_make(r, lang, vh_chance(r, 0.2) ? 1 : 0, 40000, &ha); vd_pattern_random(r, &hp, 1); if (hp.style == 3 && ha.n > 20000) hp.style = 2;
                if (!same_len && vh_chance(r, 0.15)) { ha.n = 0; snprintf(ha.desc, sizeof(ha.desc), "no audio at all (utterance started and ended)"); vh_count("history_utterances_without_audio_on_the_targets_search", 1); }
                if (same_len && ha.n > 0) {
                    /* an earlier utterance of exactly the target's length but other content, with every kind of result requested after it:
                     * whatever is kept per search object (lattice, N-best, alignment, JSON text) must not be served to the target just
                     * because the frame counts agree */
                    int16_t *s2 = (int16_t *)calloc((size_t)t.a.n + 1, sizeof(int16_t)); long j;
                    for (j = 0; j < t.a.n; ++j) s2[j] = ha.s[j % ha.n];
                    free(ha.s); ha.s = s2; ha.n = t.a.n; hp = t.p;
                }
                vh_rng_init(&qr, vh_next(r), 5);
                if (vd_run(dl, &ha, r, &hp, poke, &qr, &hi) == 0 && same_len) { record tmp; record_get(dl, &tmp, &hi, want_lat); record_free(&tmp); vh_count("history_utterances_of_the_targets_length_with_all_results_requested", 1); }
                snprintf(hdesc + strlen(hdesc), sizeof(hdesc) - strlen(hdesc), " {same grammar%s; %s}", same_len ? ", cut/tiled to the target's length, all results requested" : "", ha.desc);
                vd_audio_free(&ha);
            }
            vh_count("targets_after_history_on_the_same_search_object", 1);
        }
    }
    vh_desc("%s cmn=%s | %s | %s | audio: %s | %s | reset_cmn=%d | history on the long-lived decoder (%d earlier cases + now):%s\n%s", lang == VD_FR ? "fr-fr" : "en-us", t.cfg.cmn, sdesc, t.g.desc, t.a.desc, pdesc, t.reset_cmn, longuses[slot] - 1, hdesc, t.g.text.s);
    g_no_reload = same_search;
    rc = run_target(dl, &t, &after, want_lat);
    g_no_reload = 0;
    if (rc != 0) vh_viol("target_failed_after_history", "the target utterance failed (rc %d) on the long-lived decoder but succeeded on a fresh one", rc);
    else {
        char pcls[120]; pattern_class(&t.p, pcls, sizeof(pcls));
        /* the normalisation state left behind is compared too, except after an utterance without a single frame: it has nothing to
         * estimate from, so whatever was there before stays (the results themselves are still compared) */
        { int eq = record_equal(&fresh, &after, fresh.frames_searched > 0, why, sizeof(why)); int synthetic = strncmp(t.a.desc, "recording", 9) != 0;
          if (eq == -1 && synthetic) vh_viol("lattice_differs_after_history|synthetic_signal", "fresh decoder vs after %d earlier utterances, audio %s: %s", nh, t.a.desc, why);
          else if (eq != 1) vh_viol(vh_path("differs_after_history|%s|cmn_%s", pcls, t.cfg.cmn), "fresh decoder vs after %d earlier utterances: %s", nh, why); }
        /* (c) once more, straight away */
        g_no_reload = same_search;
        rc = run_target(dl, &t, &again, want_lat);
        g_no_reload = 0;
        if (rc != 0) vh_viol("target_failed_on_repeat", "the repeated target utterance failed (rc %d)", rc);
        else { if (record_equal(&after, &again, 1, why, sizeof(why)) != 1) vh_viol(vh_path("differs_on_repeat|%s|cmn_%s", pcls, t.cfg.cmn), "same utterance twice in a row: %s", why); record_free(&again); }
        vh_count("targets_compared", 1);
        vh_count(t.reset_cmn ? "targets_with_cmn_reset" : "targets_full_utt_batch_without_reset", 1);
        vh_count("history_utterances", nh);
        record_free(&after);
    }
    /* two instances alive at once, operations interleaved: each decoder gets exactly the call sequence of
     * its solo run (same chunk boundaries), only the order relative to the other decoder's calls is random */
    if (vh_chance(r, 0.3)) {
        target t2; decoder_t *dd[2]; target *tt[2]; long *cl[2]; int nc[2], q, ok = 1; record solo[2], inter[2];
        make_target(r, &t2, vh_chance(r, 0.2) ? (lang ^ 1) : lang);
        tt[0] = &t; tt[1] = &t2; dd[0] = df; dd[1] = vd_decoder_fresh(&t2.cfg);
        for (q = 0; q < 2; ++q) { long pos = 0; nc[q] = 0; cl[q] = (long *)calloc((size_t)tt[q]->a.n + 2, sizeof(long)); while (pos < tt[q]->a.n) { long len = vh_chance(r, 0.2) ? vh_range(r, 1, 300) : vh_range(r, 1, 6000); if (pos + len > tt[q]->a.n) len = tt[q]->a.n - pos; cl[q][nc[q]++] = len; pos += len; } }
        if (dd[1]) {
            int pass;
            for (pass = 0; pass < 2 && ok; ++pass) {   /* pass 0: solo, one after the other; pass 1: interleaved */
                long pos[2] = { 0, 0 }; int ci[2] = { 0, 0 }; vd_runinfo in[2]; memset(in, 0, sizeof(in));
                for (q = 0; q < 2; ++q) { vd_search_apply(dd[q], &tt[q]->sp); if (vd_gram_load(dd[q], &tt[q]->g) != 0) ok = 0; }
                if (!ok) break;
                for (q = 0; q < 2; ++q) decoder_set_cmn(dd[q], CMN0);
                if (pass == 0) {
                    for (q = 0; q < 2; ++q) {
                        decoder_start_utt(dd[q]);
                        for (ci[q] = 0; ci[q] < nc[q]; ++ci[q]) { int rv = decoder_process_int16(dd[q], tt[q]->a.s + pos[q], (size_t)cl[q][ci[q]], 0, 0); if (rv < 0) ok = 0; else in[q].sum_ret += rv; pos[q] += cl[q][ci[q]]; }
                        in[q].nframes_before_end = decoder_n_frames(dd[q]); decoder_end_utt(dd[q]); in[q].nframes_after_end = decoder_n_frames(dd[q]);
                        record_get(dd[q], &solo[q], &in[q], 0);
                    }
                } else {
                    int first = (int)vh_below(r, 2);
                    decoder_start_utt(dd[first]); decoder_start_utt(dd[first ^ 1]);
                    while (ci[0] < nc[0] || ci[1] < nc[1]) {
                        int rv; q = (ci[0] < nc[0] && (ci[1] >= nc[1] || vh_chance(r, 0.5))) ? 0 : 1;
                        rv = decoder_process_int16(dd[q], tt[q]->a.s + pos[q], (size_t)cl[q][ci[q]], 0, 0); if (rv < 0) ok = 0; else in[q].sum_ret += rv; pos[q] += cl[q][ci[q]]; ++ci[q];
                        if (vh_chance(r, 0.1)) { int32 sc; decoder_hyp(dd[q ^ 1], &sc); }
                    }
                    first = (int)vh_below(r, 2);
                    for (q = 0; q < 2; ++q) { int w = q ? first ^ 1 : first; in[w].nframes_before_end = decoder_n_frames(dd[w]); decoder_end_utt(dd[w]); in[w].nframes_after_end = decoder_n_frames(dd[w]); }
                    /* results read in the opposite order they were ended */
                    for (q = 1; q >= 0; --q) record_get(dd[q], &inter[q], &in[q], 0);
                    for (q = 0; q < 2 && ok; ++q) if (record_equal(&solo[q], &inter[q], 1, why, sizeof(why)) != 1) vh_viol("instances_interfere", "decoder %c with its calls interleaved with another decoder's vs alone (same call sequence): %s", 'A' + q, why);
                    vh_count("interleaved_pairs_compared", 1);
                    for (q = 0; q < 2; ++q) { record_free(&solo[q]); record_free(&inter[q]); }
                }
            }
            decoder_free(dd[1]);
        }
        free(cl[0]); free(cl[1]);
        free_target(&t2);
    }
    /* frequency warping is configured per decoder: a decoder created with warp parameters must behave the same whether or not a decoder
     * without warping (or with other parameters) was created in between */
    if (i % 12 == 7) {
        static const char *wt[3] = { "affine", "inverse_linear", "piecewise_linear" }, *wp[3] = { "1.12 20", "1.08", "0.92 3000" }, *wp2[3] = { "0.9 -10", "0.95", "1.1 2500" };
        int w = (int)vh_below(r, 3); vd_cfg wc = t.cfg, oc = t.cfg; decoder_t *da, *dn, *dc; record ra, rc2;
        wc.warp_type = wt[w]; wc.warp_params = wp[w];
        { vd_cfg pc = t.cfg; decoder_t *dp; pc.warp_type = wt[w]; pc.warp_params = wp2[w]; dp = vd_decoder_fresh(&pc); if (dp) decoder_free(dp); }   /* whatever earlier cases left in the process-wide warp state, the first decoder starts from other parameters */
        da = vd_decoder_fresh(&wc);
        if (da && run_target(da, &t, &ra, 0) == 0) {
            if (vh_chance(r, 0.5)) { oc.warp_type = wt[w]; oc.warp_params = wp2[w]; }     /* another decoder: unwarped, or warped differently */
            dn = vd_decoder_fresh(&oc);
            if (dn && vh_chance(r, 0.5)) { decoder_free(dn); dn = NULL; }
            dc = vd_decoder_fresh(&wc);
            if (dc && run_target(dc, &t, &rc2, 0) == 0) {
                if (record_equal(&ra, &rc2, 1, why, sizeof(why)) != 1) vh_viol("fresh_decoder_differs|warp_state", "two fresh decoders with warp_type=%s warp_params='%s' disagree when a decoder with %s was created in between: %s", wt[w], wp[w], oc.warp_type ? "other warp parameters" : "no warping", why);
                if (record_equal(&ra, &fresh, 0, why, sizeof(why)) != 1) vh_count("warping_changes_the_result", 1);
                vh_count("warp_isolation_checks", 1);
                record_free(&rc2);
            }
            if (dc) decoder_free(dc);
            if (dn) decoder_free(dn);
            record_free(&ra);
        }
        if (da) decoder_free(da);
    }
    if (fresh.res.nseg > 0) vh_nontrivial("%016llx", (unsigned long long)(vd_result_hash(&fresh.res) ^ vh_hash(t.g.text.s, t.g.text.n, VH_H0)));
    if (i % 20 == 3) vh_sample("target: %s; %s; audio %s; %s -> \"%s\" (score %d); identical on a fresh decoder, after %d earlier utterances and on repetition", t.g.desc, sdesc, t.a.desc, pdesc, fresh.res.has_hyp ? fresh.res.hyp : "(none)", fresh.res.score, nh);
    record_free(&fresh);
    decoder_free(df);
    free_target(&t);
}

static void run(long i, vh_rng *r) { if (MON == 7) run_c07(i, r); else run_c08(i, r); }
static void teardown(void) { int k; vd_drop_decoders(); for (k = 0; k < 2; ++k) if (longlived[k]) { decoder_free(longlived[k]); longlived[k] = NULL; } }
static const vh_harness H = { "h_diff", ncases, setup, run, teardown, 300 };
int main(int argc, char **argv) { return vh_main(argc, argv, &H); }
